package core

import (
	"fmt"
	"go/constant"
	"go/token"
	"go/types"
	"os"

	"golang.org/x/tools/go/ssa"
)

// E7: path enumeration of comparison-only code. A Valuation binds SSA values
// (symbols) to small integers or booleans; Walk follows the CFG from a block
// deciding every branch under the valuation. With Enter set, static calls of
// the selected functions are followed into the callee (interprocedural): the
// callee's parameters stand for the caller's arguments and its results become
// the value of the call, so a decision reads the same whether it is written
// in place or in a helper. Nothing of the analysed program is executed: the
// walker evaluates comparison and arithmetic operators on its own integers.

type Valuation struct {
	Int  func(v ssa.Value) (int64, bool)
	Bool func(v ssa.Value) (bool, bool)
	// Visit, when set, is called for every non-phi instruction passed by Walk,
	// in order (loops and entered callees included); values can be read with
	// EvalInt / Root at that time.
	Visit func(in ssa.Instruction)
	// Enter selects the static callees that are followed (nil: none).
	Enter func(f *ssa.Function) bool
	// Typed makes integer arithmetic and conversions wrap to the width and
	// signedness of their Go type (two's complement), as the compiled code
	// does; 64-bit unsigned values are carried as their bit pattern.
	Typed bool
	// RootStop, when set, ends Root/RootF at the first value it accepts (a
	// value the rule has a snapshot of and does not want followed further).
	RootStop func(v ssa.Value) bool
	// PhiHook, when set, is called for every phi when its block is entered,
	// with the incoming value of the edge taken, while the state of the
	// previous block (and iteration) is still in force: the place to take a
	// snapshot of what the incoming value stands for.
	PhiHook func(phi *ssa.Phi, incoming ssa.Value)
	// Len, when set, gives the length of a slice value the walk did not see
	// being built (a parameter, the result of a call): the base case of
	// BuiltLen.
	Len func(root ssa.Value) (int64, bool)

	cur *wframe
	// bind remembers, for every parameter of an entered callee, the argument
	// (and its frame) of the latest entry, so that values handed out of a
	// finished callee can still be rooted
	bind map[*ssa.Parameter]boundArg
}

type boundArg struct {
	v ssa.Value
	f *wframe
}

// wframe is one activation of a function during a walk.
type wframe struct {
	fn      *ssa.Function
	caller  *wframe
	args    []ssa.Value // the call's arguments, values of the caller's frame
	phiInt  map[*ssa.Phi]int64
	phiBool map[*ssa.Phi]bool
	phiVal  map[*ssa.Phi]ssa.Value
	phiLen  map[*ssa.Phi]int64 // slice-typed phis: the length of the list built so far
	callRes map[*ssa.Call][]wres
	// a closure body entered with concrete integer arguments (library
	// functions that call back, e.g. sort.Search): the parameters' values and
	// the closure whose bindings stand for the free variables
	paramInt map[*ssa.Parameter]int64
	closure  *ssa.MakeClosure
}

// Frame identifies an activation during a walk (for EvalIntF / RootF).
type Frame = *wframe

// wres is one result of an entered call.
type wres struct {
	i     int64
	b     bool
	isInt bool
	isB   bool
	val   ssa.Value // the returned value, rooted in a caller's frame where possible
	fr    *wframe   // the frame val belongs to
}

func newFrame(fn *ssa.Function, caller *wframe, args []ssa.Value) *wframe {
	return &wframe{fn: fn, caller: caller, args: args, phiInt: map[*ssa.Phi]int64{}, phiBool: map[*ssa.Phi]bool{}, phiVal: map[*ssa.Phi]ssa.Value{}, phiLen: map[*ssa.Phi]int64{}, callRes: map[*ssa.Call][]wres{}}
}

// WalkResult is the end of a concrete walk.
type WalkResult struct {
	End    ssa.Instruction   // *ssa.Return or *ssa.Panic
	Instrs []ssa.Instruction // every instruction passed, in order
	Prev   *ssa.BasicBlock   // predecessor of the final block (for phis)
	OK     bool              // false: a branch could not be decided or step bound hit
	Why    string
	Phi    map[*ssa.Phi]ssa.Value // resolved phi inputs along the path (outermost frame)
	// RetInt / RetBool: the results of the final return, where they evaluate
	RetInt  map[int]int64
	RetBool map[int]bool
	// RetVal: the returned values, followed through entered callees' parameters,
	// results and the phis resolved on the path
	RetVal map[int]ssa.Value
	// RetNil: for results whose nil-ness is known (the nil constant, or a value
	// that cannot be nil such as a fresh error), whether they are nil
	RetNil map[int]bool
}

// Root follows v through parameters of entered callees to the value of the
// outermost frame it stands for (and through phis resolved on the path).
func (val *Valuation) Root(v ssa.Value) ssa.Value {
	r, _ := val.rootIn(val.cur, v)
	return r
}

func (val *Valuation) rootIn(f *wframe, v ssa.Value) (ssa.Value, *wframe) {
	for steps := 0; steps < 64; steps++ {
		v = Unwrap(v)
		if f == nil {
			return v, nil
		}
		if val.RootStop != nil && val.RootStop(v) {
			return v, f
		}
		switch x := v.(type) {
		case *ssa.Parameter:
			if f.caller != nil && x.Parent() == f.fn {
				for i, p := range f.fn.Params {
					if p == x && i < len(f.args) {
						v, f = f.args[i], f.caller
						goto next
					}
				}
			}
			if ba, ok := val.bind[x]; ok && ba.f != nil {
				v, f = ba.v, ba.f
				goto next
			}
			return v, f
		case *ssa.Phi:
			if in, ok := f.phiVal[x]; ok && in != ssa.Value(x) {
				v = in
				goto next
			}
			return v, f
		case *ssa.FreeVar:
			// the binding given where the closure was made (in the caller's frame)
			if f.closure != nil && f.caller != nil {
				for i, fv := range f.fn.FreeVars {
					if fv == x && i < len(f.closure.Bindings) {
						v, f = f.closure.Bindings[i], f.caller
						goto next
					}
				}
			}
			return v, f
		case *ssa.Field:
			// a field of an element of a static table (copied into a range variable)
			if sv, ok := val.staticField(f, x.X, FieldOf(x)); ok {
				return sv, nil
			}
			return v, f
		case *ssa.UnOp:
			// a load from a write-once cell (a spilled parameter or local that a
			// closure captures): the value stored into it
			if x.Op == token.MUL {
				if fa, ok := x.X.(*ssa.FieldAddr); ok {
					if sv, ok := val.staticFieldAddr(f, fa); ok {
						return sv, nil
					}
				}
				if ia, ok := x.X.(*ssa.IndexAddr); ok {
					if e, ok := val.staticElem(f, ia); ok && e.Val != nil {
						return e.Val, nil
					}
				}
				cell, cf := val.rootIn(f, x.X)
				if al, ok := cell.(*ssa.Alloc); ok && storesTo(al) == 1 {
					for _, r := range *al.Referrers() {
						if st, ok := r.(*ssa.Store); ok && st.Addr == ssa.Value(al) {
							v, f = st.Val, cf
							goto next
						}
					}
				}
			}
			return v, f
		case *ssa.Call:
			if rs, ok := f.callRes[x]; ok && len(rs) == 1 && rs[0].val != nil {
				v, f = rs[0].val, rs[0].fr
				goto next
			}
			return v, f
		case *ssa.Extract:
			if call, ok := x.Tuple.(*ssa.Call); ok {
				if rs, ok := f.callRes[call]; ok && x.Index < len(rs) && rs[x.Index].val != nil {
					v, f = rs[x.Index].val, rs[x.Index].fr
					goto next
				}
			}
			if lk, ok := x.Tuple.(*ssa.Lookup); ok && x.Index == 0 {
				if e, hit, ok := val.staticLookup(f, lk); ok && hit {
					return e.Val, nil
				}
			}
			return v, f
		case *ssa.Lookup:
			if !x.CommaOk {
				if e, hit, ok := val.staticLookup(f, x); ok && hit {
					return e.Val, nil
				}
			}
			return v, f
		default:
			return v, f
		}
	next:
	}
	return v, f
}

// RootF is Root that also tells the frame the rooted value belongs to.
func (val *Valuation) RootF(v ssa.Value) (ssa.Value, Frame) { return val.rootIn(val.cur, v) }

// SetFrame makes f the current frame (for Root / EvalInt) and returns the
// previous one.
func (val *Valuation) SetFrame(f Frame) Frame {
	old := val.cur
	val.cur = f
	return old
}

// EvalIntF evaluates v in the given frame (as obtained from RootF).
func (val *Valuation) EvalIntF(f Frame, v ssa.Value) (int64, bool) { return val.evalInt(f, v, nil, 0) }

// EvalInt evaluates an integer value under the valuation (in the current
// frame; the phi argument is kept for compatibility and may be nil).
func (val *Valuation) EvalInt(v ssa.Value, phi map[*ssa.Phi]ssa.Value) (int64, bool) {
	return val.evalInt(val.cur, v, phi, 0)
}

func (val *Valuation) atomInt(f *wframe, v ssa.Value) (int64, bool) {
	if val.Int == nil {
		return 0, false
	}
	save := val.cur
	val.cur = f
	n, ok := val.Int(v)
	val.cur = save
	return n, ok
}

func (val *Valuation) atomBool(f *wframe, v ssa.Value) (bool, bool) {
	if val.Bool == nil {
		return false, false
	}
	save := val.cur
	val.cur = f
	b, ok := val.Bool(v)
	val.cur = save
	return b, ok
}

func (val *Valuation) evalInt(f *wframe, v ssa.Value, phi map[*ssa.Phi]ssa.Value, depth int) (int64, bool) {
	if depth > 200 {
		return 0, false
	}
	v = Unwrap(v)
	if n, ok := val.atomInt(f, v); ok {
		return n, true
	}
	switch x := v.(type) {
	case *ssa.Const:
		if x.Value != nil && x.Value.Kind() == constant.Int {
			if n, exact := constant.Int64Val(x.Value); exact || !val.Typed {
				return n, exact
			}
			// a uint64 constant above MaxInt64: its two's-complement pattern (typed walks only)
			if u, exact := constant.Uint64Val(x.Value); exact {
				return int64(u), true
			}
			return 0, false
		}
	case *ssa.Convert:
		n, ok := val.evalInt(f, x.X, phi, depth+1)
		if ok && val.Typed {
			n = wrapToType(n, x.Type())
		}
		return n, ok
	case *ssa.Parameter:
		if f != nil {
			if n, ok := f.paramInt[x]; ok {
				return n, true
			}
		}
		if f != nil && f.caller != nil && x.Parent() == f.fn {
			for i, p := range f.fn.Params {
				if p == x && i < len(f.args) {
					return val.evalInt(f.caller, f.args[i], nil, depth+1)
				}
			}
		}
	case *ssa.UnOp:
		if x.Op == token.MUL && f != nil {
			if r, rf := val.rootIn(f, x); r != ssa.Value(x) {
				return val.evalInt(rf, r, nil, depth+1)
			}
		}
		if x.Op == token.SUB && val.Typed {
			if n, ok := val.evalInt(f, x.X, phi, depth+1); ok {
				return wrapToType(-n, x.Type()), true
			}
		}
		if x.Op == token.XOR && val.Typed { // ^x
			if n, ok := val.evalInt(f, x.X, phi, depth+1); ok {
				return wrapToType(^n, x.Type()), true
			}
		}
	case *ssa.Field:
		if f != nil {
			if r, rf := val.rootIn(f, x); r != ssa.Value(x) {
				return val.evalInt(rf, r, nil, depth+1)
			}
		}
	case *ssa.Call:
		// len of a static table
		if bi, ok := x.Call.Value.(*ssa.Builtin); ok && bi.Name() == "len" && f != nil {
			base, bf := val.rootIn(f, x.Call.Args[0])
			if g := GlobalOfLoad(base); g != nil {
				if t := StaticTableOf(g); t != nil {
					return int64(len(t.Elems)), true
				}
			}
			// len of a list built on this path: nil, make, append of single elements
			if n, ok := val.builtLen(bf, base, 0); ok {
				return n, true
			}
		}
		if f != nil {
			if rs, ok := f.callRes[x]; ok && len(rs) == 1 && rs[0].isInt {
				return rs[0].i, true
			}
		}
	case *ssa.FreeVar:
		if f != nil {
			if r, rf := val.rootIn(f, x); r != ssa.Value(x) {
				return val.evalInt(rf, r, nil, depth+1)
			}
		}
	case *ssa.Phi:
		if f != nil {
			if n, ok := f.phiInt[x]; ok {
				return n, true
			}
			if in, ok := f.phiVal[x]; ok && in != ssa.Value(x) {
				return val.evalInt(f, in, phi, depth+1)
			}
		}
		if in, ok := phi[x]; ok && in != ssa.Value(x) {
			return val.evalInt(f, in, phi, depth+1)
		}
	case *ssa.Extract:
		if call, ok := x.Tuple.(*ssa.Call); ok && f != nil {
			if rs, ok := f.callRes[call]; ok && x.Index < len(rs) && rs[x.Index].isInt {
				return rs[x.Index].i, true
			}
		}
	case *ssa.BinOp:
		a, ok1 := val.evalInt(f, x.X, phi, depth+1)
		b, ok2 := val.evalInt(f, x.Y, phi, depth+1)
		if !ok1 || !ok2 {
			return 0, false
		}
		if val.Typed {
			switch x.Op {
			case token.SHL:
				if b >= 0 && b < 64 {
					return wrapToType(int64(uint64(a)<<uint(b)), x.Type()), true
				}
				if b >= 64 {
					return 0, true
				}
			case token.SHR:
				if bt, ok := x.X.Type().Underlying().(*types.Basic); ok && b >= 0 {
					if bt.Info()&types.IsUnsigned != 0 {
						if b >= 64 {
							return 0, true
						}
						return int64(uint64(a) >> uint(b)), true
					}
					if b >= 63 {
						b = 63
					}
					return a >> uint(b), true
				}
			case token.AND_NOT:
				return a &^ b, true
			}
			switch x.Op {
			case token.ADD:
				return wrapToType(a+b, x.Type()), true
			case token.SUB:
				return wrapToType(a-b, x.Type()), true
			case token.MUL:
				return wrapToType(a*b, x.Type()), true
			}
		}
		switch x.Op {
		case token.ADD:
			return a + b, true
		case token.SUB:
			return a - b, true
		case token.MUL:
			return a * b, true
		case token.AND:
			return a & b, true
		case token.OR:
			return a | b, true
		case token.REM:
			if b != 0 {
				return a % b, true
			}
		case token.QUO:
			if b != 0 {
				return a / b, true
			}
		case token.SHR:
			if a >= 0 && b >= 0 && b < 63 {
				return a >> uint(b), true
			}
		case token.SHL:
			if a >= 0 && b >= 0 && b < 32 && a < 1<<30 {
				return a << uint(b), true
			}
		case token.XOR:
			return a ^ b, true
		}
	}
	return 0, false
}

// EvalBool evaluates a boolean value under the valuation.
func (val *Valuation) EvalBool(v ssa.Value, phi map[*ssa.Phi]ssa.Value) (bool, bool) {
	return val.evalBool(val.cur, v, phi, 0)
}

func (val *Valuation) evalBool(f *wframe, v ssa.Value, phi map[*ssa.Phi]ssa.Value, depth int) (bool, bool) {
	if depth > 200 {
		return false, false
	}
	v = Unwrap(v)
	if b, ok := val.atomBool(f, v); ok {
		return b, true
	}
	switch x := v.(type) {
	case *ssa.Const:
		if x.Value != nil && x.Value.Kind() == constant.Bool {
			return constant.BoolVal(x.Value), true
		}
	case *ssa.Parameter:
		if f != nil && f.caller != nil && x.Parent() == f.fn {
			for i, p := range f.fn.Params {
				if p == x && i < len(f.args) {
					return val.evalBool(f.caller, f.args[i], nil, depth+1)
				}
			}
		}
	case *ssa.Phi:
		if f != nil {
			if b, ok := f.phiBool[x]; ok {
				return b, true
			}
			if in, ok := f.phiVal[x]; ok && in != ssa.Value(x) {
				return val.evalBool(f, in, phi, depth+1)
			}
		}
		if in, ok := phi[x]; ok && in != ssa.Value(x) {
			return val.evalBool(f, in, phi, depth+1)
		}
	case *ssa.Call:
		if f != nil {
			if rs, ok := f.callRes[x]; ok && len(rs) == 1 && rs[0].isB {
				return rs[0].b, true
			}
		}
	case *ssa.Extract:
		if call, ok := x.Tuple.(*ssa.Call); ok && f != nil {
			if rs, ok := f.callRes[call]; ok && x.Index < len(rs) && rs[x.Index].isB {
				return rs[x.Index].b, true
			}
		}
		if lk, ok := x.Tuple.(*ssa.Lookup); ok && x.Index == 1 {
			if _, hit, ok := val.staticLookup(f, lk); ok {
				return hit, true
			}
		}
	case *ssa.UnOp:
		if x.Op == token.NOT {
			b, ok := val.evalBool(f, x.X, phi, depth+1)
			return !b, ok
		}
	case *ssa.BinOp:
		switch x.Op {
		case token.EQL, token.NEQ, token.LSS, token.LEQ, token.GTR, token.GEQ:
			a, ok1 := val.evalInt(f, x.X, phi, depth+1)
			b, ok2 := val.evalInt(f, x.Y, phi, depth+1)
			if !ok1 || !ok2 {
				// comparison with nil: decided when the other side is rooted in a
				// nil constant or in a freshly made (hence non-nil) value
				if x.Op == token.EQL || x.Op == token.NEQ {
					var other ssa.Value
					if IsNilConst(x.X) {
						other = x.Y
					} else if IsNilConst(x.Y) {
						other = x.X
					}
					if other != nil {
						if isNil, known := val.nilness(f, other); known {
							return isNil == (x.Op == token.EQL), true
						}
					}
				}
				// boolean equality
				if x.Op == token.EQL || x.Op == token.NEQ {
					p, ok3 := val.evalBool(f, x.X, phi, depth+1)
					q, ok4 := val.evalBool(f, x.Y, phi, depth+1)
					if ok3 && ok4 {
						return (p == q) == (x.Op == token.EQL), true
					}
				}
				return false, false
			}
			switch x.Op {
			case token.EQL:
				return a == b, true
			case token.NEQ:
				return a != b, true
			case token.LSS:
				return a < b, true
			case token.LEQ:
				return a <= b, true
			case token.GTR:
				return a > b, true
			case token.GEQ:
				return a >= b, true
			}
		case token.AND, token.LAND:
			p, ok1 := val.evalBool(f, x.X, phi, depth+1)
			q, ok2 := val.evalBool(f, x.Y, phi, depth+1)
			if ok1 && ok2 {
				return p && q, true
			}
		case token.OR, token.LOR:
			p, ok1 := val.evalBool(f, x.X, phi, depth+1)
			q, ok2 := val.evalBool(f, x.Y, phi, depth+1)
			if ok1 && ok2 {
				return p || q, true
			}
		}
	}
	return false, false
}

// staticLookup: lk reads a static map table with a key that evaluates in
// frame f; hit tells whether the table has that key.
func (val *Valuation) staticLookup(f *wframe, lk *ssa.Lookup) (e StaticElem, hit, ok bool) {
	base, _ := val.rootIn(f, lk.X)
	g := GlobalOfLoad(base)
	if g == nil {
		return e, false, false
	}
	t := StaticTableOf(g)
	if t == nil || !t.IsMap {
		return e, false, false
	}
	k, kok := val.evalInt(f, lk.Index, nil, 0)
	if !kok {
		return e, false, false
	}
	for _, el := range t.Elems {
		ek, isC := ConstInt(el.Key)
		if !isC {
			return e, false, false
		}
		if ek == k {
			return el, true, true
		}
	}
	return e, false, true
}

// staticElem: ia addresses element i of a static table (a package-level
// slice initialised by a literal) with an index that evaluates in frame f.
func (val *Valuation) staticElem(f *wframe, ia *ssa.IndexAddr) (StaticElem, bool) {
	base, bf := val.rootIn(f, ia.X)
	g := GlobalOfLoad(base)
	if gg, isG := base.(*ssa.Global); isG {
		g = gg // an array variable indexed in place
	}
	if g == nil {
		return StaticElem{}, false
	}
	t := StaticTableOf(g)
	if os.Getenv("MLTLINT_DEBUG") == "static" {
		fmt.Fprintf(os.Stderr, "static: %s table=%v\n", g.Name(), t != nil)
	}
	if t == nil || t.IsMap {
		return StaticElem{}, false
	}
	_ = bf
	i, ok := val.evalInt(f, ia.Index, nil, 0)
	if !ok || i < 0 || i >= int64(len(t.Elems)) {
		return StaticElem{}, false
	}
	return t.Elems[i], true
}

// staticFieldAddr: fa is &table[i].f, or &local.f where local holds a copy of
// table[i].
func (val *Valuation) staticFieldAddr(f *wframe, fa *ssa.FieldAddr) (ssa.Value, bool) {
	fld := FieldOf(fa)
	if fld == nil {
		return nil, false
	}
	switch b := fa.X.(type) {
	case *ssa.IndexAddr:
		if e, ok := val.staticElem(f, b); ok && e.Fields != nil {
			if v, ok := e.Fields[fld.Name()]; ok {
				return v, true
			}
		}
	case *ssa.Alloc:
		// a local struct that was assigned *(&table[i])
		if b.Referrers() != nil {
			for _, r := range *b.Referrers() {
				if st, ok := r.(*ssa.Store); ok && st.Addr == ssa.Value(b) {
					return val.staticField(f, st.Val, fld)
				}
			}
		}
	}
	return nil, false
}

// staticField: sv is a struct value loaded from a static table element.
func (val *Valuation) staticField(f *wframe, sv ssa.Value, fld *types.Var) (ssa.Value, bool) {
	if fld == nil {
		return nil, false
	}
	r, rf := val.rootIn(f, sv)
	ld, ok := r.(*ssa.UnOp)
	if !ok || ld.Op != token.MUL {
		return nil, false
	}
	ia, ok := ld.X.(*ssa.IndexAddr)
	if !ok {
		return nil, false
	}
	if rf == nil {
		rf = f
	}
	if e, ok := val.staticElem(rf, ia); ok && e.Fields != nil {
		if v, ok := e.Fields[fld.Name()]; ok {
			return v, true
		}
	}
	return nil, false
}

// nilness: is v (rooted through phis, parameters and entered calls) the nil
// constant, or a value that cannot be nil (a fresh error, an allocation, a
// value boxed into an interface)?
func (val *Valuation) nilness(f *wframe, v ssa.Value) (isNil, known bool) {
	r, rf := val.rootIn(f, v)
	r = Unwrap(r)
	// an element of a static table that the literal leaves out is the zero value
	if ld, ok := r.(*ssa.UnOp); ok && ld.Op == token.MUL {
		if ia, ok := ld.X.(*ssa.IndexAddr); ok {
			if e, ok := val.staticElem(rf, ia); ok && e.Val == nil && e.Fields == nil {
				return true, true
			}
		}
	}
	switch x := r.(type) {
	case *ssa.Const:
		if x.Value == nil {
			return true, true
		}
	case *ssa.MakeInterface, *ssa.Alloc, *ssa.MakeSlice, *ssa.MakeMap, *ssa.MakeClosure, *ssa.Function, *ssa.Slice:
		return false, true
	case *ssa.Call:
		if g := x.Call.StaticCallee(); g != nil {
			switch g.String() {
			case "fmt.Errorf", "errors.New":
				return false, true
			}
		}
	}
	return false, false
}

// Walk follows the CFG from `start` (entered from `from`, may be nil).
func (val *Valuation) Walk(start, from *ssa.BasicBlock) WalkResult {
	top := newFrame(start.Parent(), nil, nil)
	res := val.walkFrame(top, start, from, 0)
	res.Phi = top.phiVal
	val.cur = top
	return res
}

func (val *Valuation) walkFrame(f *wframe, start, from *ssa.BasicBlock, depth int) WalkResult {
	res := WalkResult{Phi: f.phiVal, RetInt: map[int]int64{}, RetBool: map[int]bool{}, RetVal: map[int]ssa.Value{}, RetNil: map[int]bool{}}
	cur, prev := start, from
	val.cur = f
	for steps := 0; steps < 10000; steps++ {
		// phis are assigned in parallel: evaluate every incoming value under
		// the state before the block is entered, then commit
		newInt := map[*ssa.Phi]int64{}
		newBool := map[*ssa.Phi]bool{}
		var phis []*ssa.Phi
		for _, in := range cur.Instrs {
			ph, ok := in.(*ssa.Phi)
			if !ok {
				break
			}
			phis = append(phis, ph)
			for i, p := range cur.Preds {
				if p == prev {
					if n, isInt := val.evalInt(f, ph.Edges[i], nil, 0); isInt {
						newInt[ph] = n
					}
					if bt, isB := ph.Type().Underlying().(*types.Basic); isB && bt.Kind() == types.Bool {
						if b, ok := val.evalBool(f, ph.Edges[i], nil, 0); ok {
							newBool[ph] = b
						}
					}
				}
			}
		}
		newVal := map[*ssa.Phi]ssa.Value{}
		newLen := map[*ssa.Phi]int64{}
		for _, ph := range phis {
			for i, p := range cur.Preds {
				if p == prev {
					// resolve through other phis of this block under the old state
					e := ph.Edges[i]
					if ep, isPhi := e.(*ssa.Phi); isPhi && ep.Block() == cur {
						if old, ok := f.phiVal[ep]; ok {
							e = old
						}
					}
					newVal[ph] = e
					if _, isSl := ph.Type().Underlying().(*types.Slice); isSl {
						if n, ok := val.builtLen(f, e, 0); ok {
							newLen[ph] = n
						}
					}
					if val.PhiHook != nil {
						val.cur = f
						val.PhiHook(ph, e)
					}
				}
			}
		}
		for _, ph := range phis {
			if e, ok := newVal[ph]; ok {
				f.phiVal[ph] = e
			}
			if n, ok := newLen[ph]; ok {
				f.phiLen[ph] = n
			} else {
				delete(f.phiLen, ph)
			}
			if n, ok := newInt[ph]; ok {
				f.phiInt[ph] = n
			} else {
				delete(f.phiInt, ph)
			}
			if b, ok := newBool[ph]; ok {
				f.phiBool[ph] = b
			} else {
				delete(f.phiBool, ph)
			}
		}
		for _, in := range cur.Instrs {
			if _, ok := in.(*ssa.Phi); ok {
				continue
			}
			res.Instrs = append(res.Instrs, in)
			val.cur = f
			if val.Visit != nil {
				val.Visit(in)
			}
			// sort.Search(n, f): the smallest i in [0, n) with f(i), else n; f is
			// followed with its parameter bound to each candidate in turn
			if call, ok := in.(*ssa.Call); ok && depth < 6 {
				if g := call.Call.StaticCallee(); g != nil && g.String() == "sort.Search" && len(call.Call.Args) == 2 {
					if n, okN := val.evalInt(f, call.Call.Args[0], nil, 0); okN {
						if mc, isMC := Unwrap(call.Call.Args[1]).(*ssa.MakeClosure); isMC {
							if body, isFn := mc.Fn.(*ssa.Function); isFn && body.Blocks != nil && len(body.Params) == 1 {
								found, decided := n, true
								for i := int64(0); i < n; i++ {
									sub := newFrame(body, f, nil)
									sub.closure = mc
									sub.paramInt = map[*ssa.Parameter]int64{body.Params[0]: i}
									sr := val.walkFrame(sub, body.Blocks[0], nil, depth+1)
									res.Instrs = append(res.Instrs, sr.Instrs...)
									val.cur = f
									b, okB := sr.RetBool[0]
									if !sr.OK || !okB {
										decided = false
										break
									}
									if b {
										found = i
										break
									}
								}
								if decided {
									f.callRes[call] = []wres{{i: found, isInt: true}}
								}
							}
						}
					}
				}
			}
			// follow a selected static callee
			if call, ok := in.(*ssa.Call); ok && val.Enter != nil && depth < 6 {
				g := call.Call.StaticCallee()
				if g == nil && !call.Call.IsInvoke() {
					// a function value: an element of a static table or a plain function
					// handed down the walked path (closures with bindings are not followed)
					fv, _ := val.rootIn(f, call.Call.Value)
					if mc, isMC := Unwrap(fv).(*ssa.MakeClosure); !isMC || len(mc.Bindings) == 0 {
						if rf, bound := ResolveFunc(fv); rf != nil && !bound {
							g = rf
						}
					}
				}
				if g != nil && g.Blocks == nil && Origin(g) != nil && Origin(g).Blocks != nil {
					g = Origin(g) // an instantiation called from generic code: its generic body
				}
				if g != nil && g.Blocks != nil && val.Enter(g) && !onStack(f, g) {
					sub := newFrame(g, f, call.Call.Args)
					if val.bind == nil {
						val.bind = map[*ssa.Parameter]boundArg{}
					}
					for i, p := range g.Params {
						if i < len(call.Call.Args) {
							val.bind[p] = boundArg{call.Call.Args[i], f}
						}
					}
					sr := val.walkFrame(sub, g.Blocks[0], nil, depth+1)
					res.Instrs = append(res.Instrs, sr.Instrs...)
					val.cur = f
					if sr.OK {
						if _, isPanic := sr.End.(*ssa.Panic); isPanic {
							res.End, res.Prev, res.OK = sr.End, prev, true
							return res
						}
						if ret, isRet := sr.End.(*ssa.Return); isRet {
							var rs []wres
							for i, r := range ret.Results {
								w := wres{}
								if n, ok := sr.RetInt[i]; ok {
									w.i, w.isInt = n, true
								}
								if b, ok := sr.RetBool[i]; ok {
									w.b, w.isB = b, true
								}
								w.val, w.fr = val.rootIn(sub, r)
								rs = append(rs, w)
							}
							f.callRes[call] = rs
						}
					}
					// an undecided callee leaves the call's value unknown; a branch
					// that needs it is then undecidable as well
				}
			}
		}
		val.cur = f
		last := cur.Instrs[len(cur.Instrs)-1]
		switch x := last.(type) {
		case *ssa.Return:
			for i, r := range x.Results {
				if n, ok := val.evalInt(f, r, nil, 0); ok {
					res.RetInt[i] = n
				}
				if b, ok := val.evalBool(f, r, nil, 0); ok {
					res.RetBool[i] = b
				}
				res.RetVal[i], _ = val.rootIn(f, r)
				if isNil, known := val.nilness(f, r); known {
					res.RetNil[i] = isNil
				}
			}
			res.End, res.Prev, res.OK = last, prev, true
			return res
		case *ssa.Panic:
			res.End, res.Prev, res.OK = last, prev, true
			return res
		case *ssa.Jump:
			prev, cur = cur, cur.Succs[0]
		case *ssa.If:
			b, ok := val.evalBool(f, x.Cond, nil, 0)
			if !ok {
				res.Why = "branch condition not decidable under the valuation: " + x.Cond.Name() + " = " + x.Cond.String() + " in " + cur.Parent().String()
				res.End = last
				return res
			}
			if b {
				prev, cur = cur, cur.Succs[0]
			} else {
				prev, cur = cur, cur.Succs[1]
			}
		default:
			res.Why = "unexpected terminator"
			return res
		}
	}
	res.Why = "step bound"
	return res
}

func onStack(f *wframe, g *ssa.Function) bool {
	for ; f != nil; f = f.caller {
		if f.fn == g {
			return true
		}
	}
	return false
}

// SamePackage is an Enter policy: follow static callees declared in the same
// package as root that have a body.
func SamePackage(root *ssa.Function) func(*ssa.Function) bool {
	return func(g *ssa.Function) bool {
		return g != nil && g.Blocks != nil && pkgPathOf(g) == pkgPathOf(root)
	}
}

// WeakOrderings enumerates every weak ordering of n symbols as rank vectors
// (ranks are small positive integers; equal rank = equal value). 3 symbols
// give 13 orderings, 4 give 75.
func WeakOrderings(n int) [][]int64 {
	var out [][]int64
	var rec func(i int, cur []int64)
	rec = func(i int, cur []int64) {
		if i == n {
			// canonical: the set of used ranks must be {1..k}
			used := map[int64]bool{}
			var max int64
			for _, r := range cur {
				used[r] = true
				if r > max {
					max = r
				}
			}
			if int64(len(used)) == max {
				out = append(out, append([]int64(nil), cur...))
			}
			return
		}
		for r := int64(1); r <= int64(n); r++ {
			rec(i+1, append(cur, r))
		}
	}
	rec(0, nil)
	return out
}

// wrapToType reduces n to the value an integer of type t holds after the
// operation wrapped (two's complement); uint64 keeps its bit pattern.
func wrapToType(n int64, t types.Type) int64 {
	b, ok := t.Underlying().(*types.Basic)
	if !ok {
		return n
	}
	switch b.Kind() {
	case types.Int8:
		return int64(int8(n))
	case types.Int16:
		return int64(int16(n))
	case types.Int32:
		return int64(int32(n))
	case types.Uint8:
		return int64(uint8(n))
	case types.Uint16:
		return int64(uint16(n))
	case types.Uint32:
		return int64(uint32(n))
	}
	return n
}

// builtLen: the length of a slice value that was built on the walked path
// from nil / make(len) by appending (the phis on the way are resolved).
func (val *Valuation) builtLen(f *wframe, v ssa.Value, depth int) (int64, bool) {
	if depth > 64 || v == nil {
		return 0, false
	}
	for steps := 0; steps < 32 && f != nil; steps++ {
		v = Unwrap(v)
		if ph, ok := v.(*ssa.Phi); ok {
			if n, has := f.phiLen[ph]; has {
				return n, true
			}
			if in, has := f.phiVal[ph]; has && in != ssa.Value(ph) {
				v = in
				continue
			}
			return 0, false
		}
		if p, ok := v.(*ssa.Parameter); ok && f.caller != nil && p.Parent() == f.fn {
			moved := false
			for i, q := range f.fn.Params {
				if q == p && i < len(f.args) {
					v, f, moved = f.args[i], f.caller, true
				}
			}
			if moved {
				continue
			}
		}
		break
	}
	switch x := v.(type) {
	case *ssa.Const:
		if x.IsNil() {
			return 0, true
		}
	case *ssa.MakeSlice:
		return val.evalInt(f, x.Len, nil, depth+1)
	case *ssa.Slice:
		// t[:] of a fresh array (the variadic arguments of a call)
		if al, ok := x.X.(*ssa.Alloc); ok && x.Low == nil && x.High == nil {
			if arr, ok := al.Type().(*types.Pointer).Elem().Underlying().(*types.Array); ok {
				return arr.Len(), true
			}
		}
		// x[lo:hi] of a list of known length
		if _, isSl := x.X.Type().Underlying().(*types.Slice); isSl {
			n, ok := val.builtLen(f, x.X, depth+1)
			if !ok {
				return 0, false
			}
			lo, hi := int64(0), n
			if x.Low != nil {
				if lo, ok = val.evalInt(f, x.Low, nil, depth+1); !ok {
					return 0, false
				}
			}
			if x.High != nil {
				if hi, ok = val.evalInt(f, x.High, nil, depth+1); !ok {
					return 0, false
				}
			}
			return hi - lo, true
		}
	case *ssa.Call:
		if bi, ok := x.Call.Value.(*ssa.Builtin); ok && bi.Name() == "append" && len(x.Call.Args) == 2 {
			a, ok1 := val.builtLen(f, x.Call.Args[0], depth+1)
			b, ok2 := val.builtLen(f, x.Call.Args[1], depth+1)
			return a + b, ok1 && ok2
		}
	}
	if val.Len != nil {
		save := val.cur
		val.cur = f
		n, ok := val.Len(v)
		val.cur = save
		return n, ok
	}
	return 0, false
}

// BuiltLen: the length of slice value v at this point of the walk (see Len).
func (val *Valuation) BuiltLen(v ssa.Value) (int64, bool) { return val.builtLen(val.cur, v, 0) }
