package core

import (
	"go/types"
	"sort"

	"golang.org/x/tools/go/ssa"
)

const (
	ExprPkg      = ModulePath + "/pkg/expr"
	ExprToolsPkg = ModulePath + "/pkg/expr/exprtools"
)

// Implementers lists the named types of pkg/expr that implement the sealed
// interface called iface ("Expr" or "Effect"), sorted by name.
func (p *Program) Implementers(iface string) []*types.Named {
	pk := p.ByPath[ExprPkg]
	if pk == nil {
		return nil
	}
	in := p.LookupType(ExprPkg, iface)
	if in == nil {
		return nil
	}
	it, ok := in.Underlying().(*types.Interface)
	if !ok {
		return nil
	}
	var out []*types.Named
	sc := pk.Types.Scope()
	for _, n := range sc.Names() {
		tn, ok := sc.Lookup(n).(*types.TypeName)
		if !ok {
			continue
		}
		nt, ok := tn.Type().(*types.Named)
		if !ok || types.IsInterface(nt) {
			continue
		}
		if types.Implements(nt, it) || types.Implements(types.NewPointer(nt), it) {
			out = append(out, nt)
		}
	}
	sort.Slice(out, func(i, j int) bool { return out[i].Obj().Name() < out[j].Obj().Name() })
	return out
}

// TypeSwitch is a group of type assertions on one interface value.
type TypeSwitch struct {
	Fn    *ssa.Function
	X     ssa.Value
	Iface *types.Named
	Cases map[string]*ssa.TypeAssert // asserted named type -> first assertion
}

// CaseValue returns the SSA value bound in the case for type name (the
// asserted struct value), or nil.
func (ts *TypeSwitch) CaseValue(name string) ssa.Value {
	ta := ts.Cases[name]
	if ta == nil {
		return nil
	}
	if !ta.CommaOk {
		return ta
	}
	if refs := ta.Referrers(); refs != nil {
		for _, r := range *refs {
			if e, ok := r.(*ssa.Extract); ok && e.Index == 0 {
				return e
			}
		}
	}
	return nil
}

// OkValue returns the comma-ok boolean of the case.
func (ts *TypeSwitch) OkValue(name string) ssa.Value {
	ta := ts.Cases[name]
	if ta == nil || !ta.CommaOk {
		return nil
	}
	if refs := ta.Referrers(); refs != nil {
		for _, r := range *refs {
			if e, ok := r.(*ssa.Extract); ok && e.Index == 1 {
				return e
			}
		}
	}
	return nil
}

// CaseBlock returns the block entered when the assertion to name succeeds.
func (ts *TypeSwitch) CaseBlock(name string) *ssa.BasicBlock {
	ok := ts.OkValue(name)
	if ok == nil {
		return nil
	}
	if refs := ok.Referrers(); refs != nil {
		for _, r := range *refs {
			if iff, isIf := r.(*ssa.If); isIf {
				return iff.Block().Succs[0]
			}
		}
	}
	return nil
}

// CaseBody is the code that handles one case of a type switch: normally the
// region of the switch's function dominated by the case block, with E the
// value bound in the case. When that region does nothing but hand E to a
// function of the same package (the arm was extracted into a helper,
// `case T: return handleT(e)`), the body is the helper: all of its blocks,
// with the parameter that receives E in E's place.
type CaseBody struct {
	Fn        *ssa.Function
	Region    map[*ssa.BasicBlock]bool
	E         ssa.Value
	Entry     *ssa.BasicBlock
	Extracted bool      // the body is a helper function
	Call      *ssa.Call // the call that hands E to the helper (Extracted only)
}

// Blocks lists the body's blocks in function order.
func (cb *CaseBody) Blocks() []*ssa.BasicBlock {
	var out []*ssa.BasicBlock
	for _, b := range cb.Fn.Blocks {
		if cb.Region[b] {
			out = append(out, b)
		}
	}
	return out
}

// CaseBody returns the body of the case for the named type (nil if the switch
// has no such case or binds no value).
func (ts *TypeSwitch) CaseBody(name string) *CaseBody {
	e, cb := ts.CaseValue(name), ts.CaseBlock(name)
	if e == nil || cb == nil {
		return nil
	}
	body := &CaseBody{Fn: ts.Fn, Region: RegionOf(cb), E: e, Entry: cb}
	// extracted arm?
	var only *ssa.Call
	idx := -1
	n := 0
	for _, b := range body.Blocks() {
		for _, in := range b.Instrs {
			call, ok := in.(*ssa.Call)
			if !ok {
				continue
			}
			if _, isBi := call.Call.Value.(*ssa.Builtin); isBi {
				continue
			}
			n++
			g := call.Call.StaticCallee()
			if g == nil || g.Blocks == nil || g == ts.Fn || pkgPathOf(g) != pkgPathOf(ts.Fn) {
				continue
			}
			for i, a := range call.Call.Args {
				if Unwrap(a) == e && i < len(g.Params) {
					only, idx = call, i
				}
			}
		}
	}
	if only != nil && n == 1 {
		g := only.Call.StaticCallee()
		region := map[*ssa.BasicBlock]bool{}
		for _, b := range g.Blocks {
			region[b] = true
		}
		return &CaseBody{Fn: g, Region: region, E: g.Params[idx], Entry: g.Blocks[0], Extracted: true, Call: only}
	}
	return body
}

// TypeSwitches finds, in fn, the groups of comma-ok type assertions from an
// interface value of static type iface (a sealed interface of pkg/expr) to
// concrete implementers. Groups with fewer than two asserted types are
// single assertions (e.g. `x.(expr.Const)`), not switches, and are skipped.
func (p *Program) TypeSwitches(fn *ssa.Function, iface string) []*TypeSwitch {
	in := p.LookupType(ExprPkg, iface)
	if in == nil {
		return nil
	}
	groups := map[ssa.Value]*TypeSwitch{}
	var order []ssa.Value
	for _, b := range fn.Blocks {
		for _, ins := range b.Instrs {
			ta, ok := ins.(*ssa.TypeAssert)
			if !ok {
				continue
			}
			if NamedOf(ta.X.Type()) != in {
				continue
			}
			nt, ok := ta.AssertedType.(*types.Named)
			if !ok || nt.Obj().Pkg() == nil || nt.Obj().Pkg().Path() != ExprPkg {
				continue
			}
			g := groups[ta.X]
			if g == nil {
				g = &TypeSwitch{Fn: fn, X: ta.X, Iface: in, Cases: map[string]*ssa.TypeAssert{}}
				groups[ta.X] = g
				order = append(order, ta.X)
			}
			if _, dup := g.Cases[nt.Obj().Name()]; !dup {
				g.Cases[nt.Obj().Name()] = ta
			}
		}
	}
	var out []*TypeSwitch
	for _, x := range order {
		if len(groups[x].Cases) >= 2 {
			out = append(out, groups[x])
		}
	}
	return out
}

// Exhaustive records one obligation per implementer: the switch has a case
// for it.
func (c *Ctx) Exhaustive(rule string, ts *TypeSwitch, iface string) {
	impl := c.Prog.Implementers(iface)
	if len(impl) < 2 {
		c.Undecide("%s: implementers of expr.%s not found", rule, iface)
		return
	}
	for _, n := range impl {
		name := n.Obj().Name()
		key := ShortName(ts.Fn) + "/switch(" + iface + ")/" + name
		if ta, ok := ts.Cases[name]; ok {
			c.Pass(rule, key, c.Prog.Pos(ta.Pos()), "")
		} else {
			c.Fail(rule, key, c.Prog.FuncPos(ts.Fn), "type switch over expr."+iface+" has no case for expr."+name)
		}
	}
}
