package core

import (
	"go/types"
	"sort"

	"golang.org/x/tools/go/ssa"
)

const (
	ExprPkg      = ModulePath + "/pkg/expr"
	ExprToolsPkg = ModulePath + "/pkg/expr/exprtools"
)

// Implementers lists the named types of pkg/expr that implement the sealed
// interface called iface ("Expr" or "Effect"), sorted by name.
func (p *Program) Implementers(iface string) []*types.Named {
	pk := p.ByPath[ExprPkg]
	if pk == nil {
		return nil
	}
	in := p.LookupType(ExprPkg, iface)
	if in == nil {
		return nil
	}
	it, ok := in.Underlying().(*types.Interface)
	if !ok {
		return nil
	}
	var out []*types.Named
	sc := pk.Types.Scope()
	for _, n := range sc.Names() {
		tn, ok := sc.Lookup(n).(*types.TypeName)
		if !ok {
			continue
		}
		nt, ok := tn.Type().(*types.Named)
		if !ok || types.IsInterface(nt) {
			continue
		}
		if types.Implements(nt, it) || types.Implements(types.NewPointer(nt), it) {
			out = append(out, nt)
		}
	}
	sort.Slice(out, func(i, j int) bool { return out[i].Obj().Name() < out[j].Obj().Name() })
	return out
}

// TypeSwitch is a group of type assertions on one interface value.
type TypeSwitch struct {
	Fn    *ssa.Function
	X     ssa.Value
	Iface *types.Named
	Cases map[string]*ssa.TypeAssert // asserted named type -> first assertion
}

// CaseValue returns the SSA value bound in the case for type name (the
// asserted struct value), or nil.
func (ts *TypeSwitch) CaseValue(name string) ssa.Value {
	ta := ts.Cases[name]
	if ta == nil {
		return nil
	}
	if !ta.CommaOk {
		return ta
	}
	if refs := ta.Referrers(); refs != nil {
		for _, r := range *refs {
			if e, ok := r.(*ssa.Extract); ok && e.Index == 0 {
				return e
			}
		}
	}
	return nil
}

// OkValue returns the comma-ok boolean of the case.
func (ts *TypeSwitch) OkValue(name string) ssa.Value {
	ta := ts.Cases[name]
	if ta == nil || !ta.CommaOk {
		return nil
	}
	if refs := ta.Referrers(); refs != nil {
		for _, r := range *refs {
			if e, ok := r.(*ssa.Extract); ok && e.Index == 1 {
				return e
			}
		}
	}
	return nil
}

// CaseBlock returns the block entered when the assertion to name succeeds.
func (ts *TypeSwitch) CaseBlock(name string) *ssa.BasicBlock {
	ok := ts.OkValue(name)
	if ok == nil {
		return nil
	}
	if refs := ok.Referrers(); refs != nil {
		for _, r := range *refs {
			if iff, isIf := r.(*ssa.If); isIf {
				return iff.Block().Succs[0]
			}
		}
	}
	return nil
}

// TypeSwitches finds, in fn, the groups of comma-ok type assertions from an
// interface value of static type iface (a sealed interface of pkg/expr) to
// concrete implementers. Groups with fewer than two asserted types are
// single assertions (e.g. `x.(expr.Const)`), not switches, and are skipped.
func (p *Program) TypeSwitches(fn *ssa.Function, iface string) []*TypeSwitch {
	in := p.LookupType(ExprPkg, iface)
	if in == nil {
		return nil
	}
	groups := map[ssa.Value]*TypeSwitch{}
	var order []ssa.Value
	for _, b := range fn.Blocks {
		for _, ins := range b.Instrs {
			ta, ok := ins.(*ssa.TypeAssert)
			if !ok {
				continue
			}
			if NamedOf(ta.X.Type()) != in {
				continue
			}
			nt, ok := ta.AssertedType.(*types.Named)
			if !ok || nt.Obj().Pkg() == nil || nt.Obj().Pkg().Path() != ExprPkg {
				continue
			}
			g := groups[ta.X]
			if g == nil {
				g = &TypeSwitch{Fn: fn, X: ta.X, Iface: in, Cases: map[string]*ssa.TypeAssert{}}
				groups[ta.X] = g
				order = append(order, ta.X)
			}
			if _, dup := g.Cases[nt.Obj().Name()]; !dup {
				g.Cases[nt.Obj().Name()] = ta
			}
		}
	}
	var out []*TypeSwitch
	for _, x := range order {
		if len(groups[x].Cases) >= 2 {
			out = append(out, groups[x])
		}
	}
	return out
}

// Exhaustive records one obligation per implementer: the switch has a case
// for it.
func (c *Ctx) Exhaustive(rule string, ts *TypeSwitch, iface string) {
	impl := c.Prog.Implementers(iface)
	if len(impl) < 2 {
		c.Undecide("%s: implementers of expr.%s not found", rule, iface)
		return
	}
	for _, n := range impl {
		name := n.Obj().Name()
		key := ShortName(ts.Fn) + "/switch(" + iface + ")/" + name
		if ta, ok := ts.Cases[name]; ok {
			c.Pass(rule, key, c.Prog.Pos(ta.Pos()), "")
		} else {
			c.Fail(rule, key, c.Prog.FuncPos(ts.Fn), "type switch over expr."+iface+" has no case for expr."+name)
		}
	}
}
