// Package core holds the loader, the obligation model, evidence and
// known-finding handling shared by every rule of mltlint.
package core

import (
	"fmt"
	"go/ast"
	"go/token"
	"go/types"
	"os"
	"sort"
	"strings"

	"golang.org/x/tools/go/packages"
	"golang.org/x/tools/go/ssa"
	"golang.org/x/tools/go/ssa/ssautil"
)

// ModulePath is the import-path prefix of the analysed module.
const ModulePath = "mltwist"

// MinPackages is the number of non-test packages of the module confirmed by
// hand on the pinned tree; fewer loaded packages make every check undecided.
const MinPackages = 25

// Config is one build configuration of the analysed tree.
type Config struct {
	GOOS, GOARCH string
	Tags         string // build tags, "" for none
}

func (c Config) String() string {
	t := c.Tags
	if t == "" {
		t = "-"
	}
	return c.GOOS + "/" + c.GOARCH + "/" + t
}

// DefaultConfig is the configuration of the quick tier.
var DefaultConfig = Config{GOOS: "linux", GOARCH: "amd64", Tags: "verif"}

// RepoDir returns the tree to analyse (/repo unless MLTLINT_REPO is set; the
// override exists so that the checker can be validated on scratch copies).
func RepoDir() string {
	if d := os.Getenv("MLTLINT_REPO"); d != "" {
		return d
	}
	return "/repo"
}

// Program is the loaded, type-checked tree with its SSA form.
type Program struct {
	Config Config
	Fset   *token.FileSet
	Pkgs   []*packages.Package // module packages only, sorted by path
	ByPath map[string]*packages.Package
	SSA    *ssa.Program
	SSAPkg map[string]*ssa.Package
	Sizes  types.Sizes

	funcs    map[string]*ssa.Function // by canonical name
	allFuncs []*ssa.Function          // module functions incl. anonymous and instantiations

	// RenameNotes: functions of the reference tree found under a new name
	RenameNotes []string
}

// Load type-checks the whole module from the working tree and builds SSA.
// Any load or type error is returned as an error (the caller reports the run
// as undecided, never as a verdict).
func Load(cfg Config) (*Program, error) {
	env := []string{}
	for _, e := range os.Environ() {
		if strings.HasPrefix(e, "GOWORK=") || strings.HasPrefix(e, "GOOS=") ||
			strings.HasPrefix(e, "GOARCH=") || strings.HasPrefix(e, "GOFLAGS=") ||
			strings.HasPrefix(e, "GOPROXY=") || strings.HasPrefix(e, "GOSUMDB=") ||
			strings.HasPrefix(e, "GOTOOLCHAIN=") || strings.HasPrefix(e, "CGO_ENABLED=") {
			continue
		}
		env = append(env, e)
	}
	env = append(env, "GOWORK=off", "GOOS="+cfg.GOOS, "GOARCH="+cfg.GOARCH,
		"GOFLAGS=-mod=mod", "GOPROXY=off", "GOSUMDB=off", "GOTOOLCHAIN=local", "CGO_ENABLED=0")
	pc := &packages.Config{
		Mode:  packages.LoadAllSyntax,
		Dir:   RepoDir(),
		Env:   env,
		Tests: false,
	}
	if cfg.Tags != "" {
		pc.BuildFlags = []string{"-tags=" + cfg.Tags}
	}
	pkgs, err := packages.Load(pc, "./...")
	if err != nil {
		return nil, fmt.Errorf("packages.Load: %w", err)
	}
	var errs []string
	packages.Visit(pkgs, nil, func(p *packages.Package) {
		for _, e := range p.Errors {
			errs = append(errs, e.Error())
		}
	})
	if len(errs) > 0 {
		sort.Strings(errs)
		if len(errs) > 8 {
			errs = errs[:8]
		}
		return nil, fmt.Errorf("tree does not load/type-check: %s", strings.Join(errs, "; "))
	}
	p := &Program{Config: cfg, ByPath: map[string]*packages.Package{}, SSAPkg: map[string]*ssa.Package{},
		funcs: map[string]*ssa.Function{}}
	for _, pk := range pkgs {
		if pk.PkgPath == ModulePath || strings.HasPrefix(pk.PkgPath, ModulePath+"/") {
			p.Pkgs = append(p.Pkgs, pk)
			p.ByPath[pk.PkgPath] = pk
			p.Fset = pk.Fset
			p.Sizes = pk.TypesSizes
		}
	}
	sort.Slice(p.Pkgs, func(i, j int) bool { return p.Pkgs[i].PkgPath < p.Pkgs[j].PkgPath })
	if len(p.Pkgs) < MinPackages {
		return nil, fmt.Errorf("only %d module packages loaded, expected at least %d", len(p.Pkgs), MinPackages)
	}
	prog, spkgs := ssautil.AllPackages(pkgs, ssa.InstantiateGenerics)
	prog.Build()
	p.SSA = prog
	for i, sp := range spkgs {
		if sp != nil {
			p.SSAPkg[pkgs[i].PkgPath] = sp
		}
	}
	for fn := range ssautil.AllFunctions(prog) {
		if pkgPathOf(fn) == "" {
			continue
		}
		p.allFuncs = append(p.allFuncs, fn)
		p.funcs[fn.String()] = fn
	}
	sort.Slice(p.allFuncs, func(i, j int) bool { return p.allFuncs[i].String() < p.allFuncs[j].String() })
	p.RenameNotes = p.resolveRenames()
	return p, nil
}

// pkgPathOf returns the module package path a function belongs to ("" if it
// is not part of the analysed module).
func pkgPathOf(fn *ssa.Function) string {
	f := fn
	for f.Parent() != nil {
		f = f.Parent()
	}
	if o := f.Origin(); o != nil {
		f = o
	}
	var path string
	if f.Pkg != nil {
		path = f.Pkg.Pkg.Path()
	} else if f.Object() != nil && f.Object().Pkg() != nil {
		path = f.Object().Pkg().Path()
	}
	if path == ModulePath || strings.HasPrefix(path, ModulePath+"/") {
		return path
	}
	return ""
}

// PkgPathOf is the exported form of pkgPathOf.
func PkgPathOf(fn *ssa.Function) string { return pkgPathOf(fn) }

// Func resolves a function by its go/ssa name, e.g.
// "mltwist/internal/deps.findOutputDepsReg" or
// "(*mltwist/internal/deps.block).Move". It returns nil when the anchor does
// not resolve.
func (p *Program) Func(name string) *ssa.Function { return p.funcs[name] }

// Funcs returns every function of the module (named, anonymous, generic
// origins and instantiations) in a stable order.
func (p *Program) Funcs() []*ssa.Function { return p.allFuncs }

// FuncsIn returns the functions whose package path equals path.
func (p *Program) FuncsIn(path string) []*ssa.Function {
	var out []*ssa.Function
	for _, f := range p.allFuncs {
		if pkgPathOf(f) == path {
			out = append(out, f)
		}
	}
	return out
}

// Pos renders a position relative to the repository root.
func (p *Program) Pos(pos token.Pos) string {
	if !pos.IsValid() {
		return "-"
	}
	ps := p.Fset.Position(pos)
	f := strings.TrimPrefix(ps.Filename, RepoDir()+"/")
	return fmt.Sprintf("%s:%d", f, ps.Line)
}

// FuncPos renders the position of a function declaration.
func (p *Program) FuncPos(fn *ssa.Function) string {
	if fn == nil {
		return "-"
	}
	return p.Pos(fn.Pos())
}

// ShortName renders a function name without the module prefix.
func ShortName(fn *ssa.Function) string {
	if fn == nil {
		return "<nil>"
	}
	return strings.ReplaceAll(CanonString(fn), ModulePath+"/", "")
}

// Syntax returns the *ast.File and package that contain pos.
func (p *Program) Syntax(pos token.Pos) (*packages.Package, *ast.File) {
	for _, pk := range p.Pkgs {
		for _, f := range pk.Syntax {
			if f.Pos() <= pos && pos < f.End() {
				return pk, f
			}
		}
	}
	return nil, nil
}

// LookupType resolves a named type of a module package.
func (p *Program) LookupType(pkgPath, name string) *types.Named {
	pk := p.ByPath[pkgPath]
	if pk == nil {
		return nil
	}
	o := pk.Types.Scope().Lookup(name)
	if o == nil {
		return nil
	}
	n, _ := o.Type().(*types.Named)
	return n
}

// LookupObj resolves a package-level object of a module package.
func (p *Program) LookupObj(pkgPath, name string) types.Object {
	pk := p.ByPath[pkgPath]
	if pk == nil {
		return nil
	}
	return pk.Types.Scope().Lookup(name)
}

// CallersOf lists the static call sites of g in the functions of g's package
// (enough for unexported helpers).
func (p *Program) CallersOf(g *ssa.Function) []CallSite {
	var out []CallSite
	for _, f := range p.FuncsIn(pkgPathOf(g)) {
		for _, cs := range Calls(f) {
			if Callee(cs.Common()) == g {
				out = append(out, cs)
			}
		}
	}
	return out
}
