package core

import (
	"encoding/json"
	"fmt"
	"os"
	"path/filepath"
	"sort"
	"strings"
)

// Obligation is one decided proof obligation of a rule on one construct.
// Identity is Rule+Key (never a line number) so that known findings and
// evidence survive unrelated edits.
type Obligation struct {
	Rule   string `json:"rule"`
	Key    string `json:"construct"`
	Pos    string `json:"pos"`
	OK     bool   `json:"ok"`
	Msg    string `json:"msg,omitempty"`
	Config string `json:"config,omitempty"`
}

// Ctx is what a property checker works with.
type Ctx struct {
	Prog     *Program
	Property string
	Tier     string

	Obls      []Obligation
	Undecided []string
	Analysed  map[string][]string // category -> items (functions, call sites, entries)
	RuleText  map[string]string   // rule id -> text
	Info      []string
	Assume    []string
	Level     string
	Extra     map[string]interface{}
}

// NewCtx creates a context.
func NewCtx(p *Program, property, tier string) *Ctx {
	c := &Ctx{Prog: p, Property: property, Tier: tier, Analysed: map[string][]string{},
		RuleText: map[string]string{}, Level: "other", Extra: map[string]interface{}{}}
	for _, n := range p.RenameNotes {
		c.Note("%s", n)
	}
	return c
}

// Rule registers the text of a rule (shown in the evidence).
func (c *Ctx) Rule(id, text string) { c.RuleText[id] = text }

// Oblige records one decided obligation.
func (c *Ctx) Oblige(rule, key, pos string, ok bool, msg string) {
	c.Obls = append(c.Obls, Obligation{Rule: rule, Key: key, Pos: pos, OK: ok, Msg: msg, Config: c.Prog.Config.String()})
}

// Fail records an unmet obligation.
func (c *Ctx) Fail(rule, key, pos, msg string) { c.Oblige(rule, key, pos, false, msg) }

// Pass records a discharged obligation.
func (c *Ctx) Pass(rule, key, pos, msg string) { c.Oblige(rule, key, pos, true, msg) }

// Undecide records that a rule could not be decided (unresolved anchor,
// vacuity guard, interpreter bound ...). An undecided run exits 2.
func (c *Ctx) Undecide(format string, a ...interface{}) {
	c.Undecided = append(c.Undecided, fmt.Sprintf(format, a...))
}

// Saw records an analysed item for the evidence.
func (c *Ctx) Saw(category, item string) {
	c.Analysed[category] = append(c.Analysed[category], item)
}

// Note records an informational line.
func (c *Ctx) Note(format string, a ...interface{}) {
	c.Info = append(c.Info, fmt.Sprintf(format, a...))
}

// RequireCount is the vacuity guard: a rule that matched fewer instances than
// were confirmed by hand must not pass.
func (c *Ctx) RequireCount(rule string, got, min int) {
	if got < min {
		c.Undecide("%s: only %d instances found, at least %d were confirmed by hand (a rule that matches nothing must not pass)", rule, got, min)
	}
}

// CountRule returns the number of obligations recorded for rule.
func (c *Ctx) CountRule(rule string) int {
	n := 0
	for _, o := range c.Obls {
		if o.Rule == rule {
			n++
		}
	}
	return n
}

// ---------------------------------------------------------------------

// KnownFinding is one entry of /verif/known_findings.json.
type KnownFinding struct {
	Status   string `json:"status"` // "open" or "fixed"
	Property string `json:"property"`
	Rule     string `json:"rule"`
	Key      string `json:"construct"`
	What     string `json:"what"`
	Commit   string `json:"commit,omitempty"`
	Line     string `json:"line,omitempty"`
}

// VerifDir is where evidence, replays and known findings live.
func VerifDir() string {
	if d := os.Getenv("MLTLINT_VERIF"); d != "" {
		return d
	}
	return "/verif"
}

// LoadKnown reads the committed known-findings file.
func LoadKnown() ([]KnownFinding, error) {
	b, err := os.ReadFile(filepath.Join(VerifDir(), "known_findings.json"))
	if err != nil {
		if os.IsNotExist(err) {
			return nil, nil
		}
		return nil, err
	}
	var f struct {
		Findings []KnownFinding `json:"findings"`
	}
	if err := json.Unmarshal(b, &f); err != nil {
		return nil, err
	}
	return f.Findings, nil
}

// Outcome is the result of a property run after known-finding filtering.
type Outcome struct {
	Property   string
	Tier       string
	Obls       []Obligation
	Unmet      []Obligation // not listed -> violations
	Known      []Obligation // listed open findings
	KnownWhat  map[string]string
	Undecided  []string
	Discharged int
}

// Evaluate splits the obligations into discharged, known and violating.
func Evaluate(c *Ctx, known []KnownFinding) *Outcome {
	o := &Outcome{Property: c.Property, Tier: c.Tier, Obls: c.Obls, Undecided: c.Undecided, KnownWhat: map[string]string{}}
	open := map[string]KnownFinding{}
	for _, k := range known {
		if k.Status == "open" && k.Property == c.Property {
			open[k.Rule+"\x00"+k.Key] = k
		}
	}
	seen := map[string]bool{}
	for _, ob := range c.Obls {
		if ob.OK {
			o.Discharged++
			continue
		}
		id := ob.Rule + "\x00" + ob.Key
		if k, ok := open[id]; ok {
			if !seen[id] {
				o.Known = append(o.Known, ob)
				o.KnownWhat[id] = k.What
				seen[id] = true
			}
			continue
		}
		o.Unmet = append(o.Unmet, ob)
	}
	return o
}

func sanitize(s string) string {
	var b strings.Builder
	for _, r := range s {
		switch {
		case r >= 'a' && r <= 'z', r >= 'A' && r <= 'Z', r >= '0' && r <= '9', r == '.', r == '-', r == '_':
			b.WriteRune(r)
		default:
			b.WriteByte('_')
		}
	}
	out := b.String()
	if len(out) > 120 {
		out = out[:120]
	}
	return out
}

// Replay is the content of a replay file: the obligation to re-evaluate.
type Replay struct {
	Property string     `json:"property"`
	Tier     string     `json:"tier"`
	Obl      Obligation `json:"obligation"`
	RuleText string     `json:"rule_text"`
	Howto    string     `json:"howto"`
}

// Emit prints diagnostics, writes replays and evidence and returns the exit
// code: 0 held, 1 violation, 2 undecided.
func Emit(c *Ctx, o *Outcome, wall float64, seed int64) int {
	vd := VerifDir()
	for _, k := range o.Known {
		fmt.Printf("KNOWN-FINDING: property=%s %s [%s %s at %s]\n", c.Property, o.KnownWhat[k.Rule+"\x00"+k.Key], k.Rule, k.Key, k.Pos)
	}
	code := 0
	replayDir := filepath.Join(vd, "replays")
	os.MkdirAll(replayDir, 0o755)
	// remove stale replays of this property
	if old, _ := filepath.Glob(filepath.Join(replayDir, c.Property+"-*.json")); len(old) > 0 {
		for _, f := range old {
			os.Remove(f)
		}
	}
	seenReplay := map[string]bool{}
	for _, u := range o.Unmet {
		fmt.Printf("%s  %s  %s  %s  [config %s]\n", u.Pos, u.Rule, u.Key, u.Msg, u.Config)
		rp := filepath.Join(replayDir, fmt.Sprintf("%s-%s.json", c.Property, sanitize(u.Rule+"-"+u.Key)))
		if !seenReplay[rp] {
			seenReplay[rp] = true
			b, _ := json.MarshalIndent(Replay{Property: c.Property, Tier: c.Tier, Obl: u, RuleText: c.RuleText[u.Rule],
				Howto: "mltlint -replay <this file> re-evaluates the obligation on the current /repo tree"}, "", " ")
			os.WriteFile(rp, b, 0o644)
			fmt.Printf("VIOLATION property=%s replay=%s\n", c.Property, rp)
		}
		code = 1
	}
	for _, u := range o.Undecided {
		fmt.Printf("UNDECIDED property=%s %s\n", c.Property, u)
	}
	if len(o.Undecided) > 0 && code == 0 {
		code = 2
	}
	writeEvidence(c, o, wall, seed)
	for _, n := range c.Info {
		fmt.Printf("info: %s\n", n)
	}
	fmt.Printf("%s %s: %d obligations, %d discharged, %d known findings, %d violations, %d undecided (%.1fs, config %s)\n",
		c.Property, c.Tier, len(o.Obls), o.Discharged, len(o.Known), len(o.Unmet), len(o.Undecided), wall, c.Prog.Config)
	return code
}

func writeEvidence(c *Ctx, o *Outcome, wall float64, seed int64) {
	vd := VerifDir()
	os.MkdirAll(filepath.Join(vd, "evidence"), 0o755)
	perRule := map[string]int{}
	perRuleOK := map[string]int{}
	for _, ob := range o.Obls {
		perRule[ob.Rule]++
		if ob.OK {
			perRuleOK[ob.Rule]++
		}
	}
	// samples: up to 3 obligations per rule, unmet ones first
	var samples []Obligation
	cnt := map[string]int{}
	for _, pass := range []bool{false, true} {
		for _, ob := range o.Obls {
			if ob.OK != pass {
				continue
			}
			if cnt[ob.Rule] >= 3 {
				continue
			}
			cnt[ob.Rule]++
			samples = append(samples, ob)
		}
	}
	distinct := map[string]bool{}
	for _, ob := range o.Obls {
		distinct[ob.Rule+"\x00"+ob.Key] = true
	}
	var rules []string
	for id, t := range c.RuleText {
		rules = append(rules, id+": "+t)
	}
	sort.Strings(rules)
	analysed := map[string]interface{}{}
	for k, v := range c.Analysed {
		sort.Strings(v)
		v = uniq(v)
		analysed[k+"_count"] = len(v)
		if len(v) > 60 {
			v = append(v[:60:60], fmt.Sprintf("... %d more", len(v)-60))
		}
		analysed[k] = v
	}
	var kf []string
	for _, k := range o.Known {
		kf = append(kf, k.Rule+" "+k.Key+": "+o.KnownWhat[k.Rule+"\x00"+k.Key])
	}
	cov := map[string]interface{}{
		"explanation": fmt.Sprintf("static analysis of /repo's current source (go/packages+go/types+go/ssa, config %s, %d module packages, no code executed): %d rule instances (obligations) decided, %d discharged, %d listed known findings, %d violations, %d undecided",
			c.Prog.Config, len(c.Prog.Pkgs), len(o.Obls), o.Discharged, len(o.Known), len(o.Unmet), len(o.Undecided)),
		"obligations":          len(o.Obls),
		"discharged":           o.Discharged,
		"evaluations":          len(o.Obls),
		"distinct_nontrivial":  len(distinct),
		"rule":                 "one case = one rule instance (rule id + construct) found in the current tree; distinct = distinct (rule, construct) pairs; every instance is non-trivial in that it names a concrete construct of /repo",
		"samples":              samples,
		"per_rule_instances":   perRule,
		"per_rule_discharged":  perRuleOK,
		"rules":                rules,
		"analysed":             analysed,
		"known_findings":       kf,
		"undecided":            o.Undecided,
		"exhaustive":           len(o.Undecided) == 0,
		"packages_loaded":      len(c.Prog.Pkgs),
		"functions_in_program": len(c.Prog.Funcs()),
		"info":                 c.Info,
	}
	if len(samples) == 0 {
		cov["samples"] = []string{"no obligations"}
	}
	for k, v := range c.Extra {
		cov[k] = v
	}
	if c.Level == "proof" {
		cov["checker_cmd"] = fmt.Sprintf("/verif/bin/mltlint -property %s -tier %s", c.Property, c.Tier)
		if _, ok := cov["trusted_base"]; !ok {
			cov["trusted_base"] = []string{"go/types", "go/ssa", "mltlint"}
		}
	}
	ev := map[string]interface{}{
		"property_id": c.Property,
		"tier":        c.Tier,
		"seed":        seed,
		"level":       c.Level,
		"coverage":    cov,
		"assumptions": append([]string{"go/packages, go/types and go/ssa (x/tools v0.29.0) represent the program faithfully", "the rule instances frozen in mltlint were confirmed by reading the pinned tree"}, c.Assume...),
		"wall_s":      wall,
		"violations":  len(o.Unmet),
	}
	b, _ := json.MarshalIndent(ev, "", " ")
	os.WriteFile(filepath.Join(vd, "evidence", c.Property+".json"), b, 0o644)
}

func uniq(s []string) []string {
	var out []string
	for i, x := range s {
		if i == 0 || x != s[i-1] {
			out = append(out, x)
		}
	}
	return out
}
