// mltlint decides structural clauses of the mltwist properties by static
// analysis of /repo's current source. Nothing of /repo is executed.
package main

import (
	"encoding/json"
	"flag"
	"fmt"
	"os"
	"os/exec"
	"runtime/debug"
	"strconv"
	"strings"
	"time"

	"mltlint/internal/core"
	"mltlint/internal/rules"
)

func main() {
	prop := flag.String("property", "", "property id (C01...)")
	tier := flag.String("tier", "", "quick or thorough (default: $VERIF_TIER or quick)")
	replay := flag.String("replay", "", "replay file to re-evaluate")
	cfgFlag := flag.String("config", "", "internal: goos/goarch/tags of a child run")
	emitJSON := flag.Bool("emit-json", false, "internal: print obligations as JSON (child of a thorough run)")
	list := flag.Bool("list", false, "list claimed properties")
	genFuncs := flag.Bool("gen-functions", false, "tooling: write spec/functions.json (names, receivers, signatures and callees of the module's functions) from the current tree")
	all := flag.Bool("all", false, "tooling: run every claimed property (quick tier) in one process on one load of the tree; prints 'RESULT <id> rc=<n>' per property")
	flag.Parse()

	if *list {
		for _, id := range rules.IDs() {
			fmt.Println(id)
		}
		return
	}
	if *tier == "" {
		*tier = os.Getenv("VERIF_TIER")
	}
	if *tier != "thorough" {
		*tier = "quick"
	}
	var seed int64
	if s := os.Getenv("VERIF_SEED"); s != "" {
		seed, _ = strconv.ParseInt(s, 10, 64)
	}
	if *replay != "" {
		os.Exit(doReplay(*replay))
	}
	if *genFuncs {
		p, err := core.Load(core.DefaultConfig)
		if err != nil {
			fmt.Println(err)
			os.Exit(2)
		}
		b, _ := json.MarshalIndent(p.FunctionRecords(), "", " ")
		if err := os.WriteFile(core.VerifDirStatic()+"/spec/functions.json", append(b, '\n'), 0o644); err != nil {
			fmt.Println(err)
			os.Exit(2)
		}
		fmt.Printf("%d functions recorded\n", len(p.FunctionRecords()))
		return
	}
	if *all {
		os.Exit(runAll(seed))
	}
	if *prop == "" {
		fmt.Fprintln(os.Stderr, "usage: mltlint -property Cnn [-tier quick|thorough] | -replay file | -list")
		os.Exit(2)
	}
	fn, level, ok := rules.Lookup(*prop)
	if !ok {
		fmt.Printf("UNDECIDED property=%s not claimed by mltlint\n", *prop)
		os.Exit(2)
	}
	cfg := core.DefaultConfig
	if *cfgFlag != "" {
		parts := strings.Split(*cfgFlag, "/")
		if len(parts) != 3 {
			fmt.Fprintln(os.Stderr, "bad -config")
			os.Exit(2)
		}
		cfg = core.Config{GOOS: parts[0], GOARCH: parts[1], Tags: parts[2]}
		if cfg.Tags == "-" {
			cfg.Tags = ""
		}
	}
	t0 := time.Now()
	ctx, err := runOne(*prop, *tier, level, fn, cfg)
	if err != nil {
		fmt.Printf("UNDECIDED property=%s %v\n", *prop, err)
		if !*emitJSON {
			writeUndecidedEvidence(*prop, *tier, level, err, time.Since(t0).Seconds(), seed)
		}
		os.Exit(2)
	}
	if *emitJSON {
		b, _ := json.Marshal(struct {
			Obls      []core.Obligation
			Undecided []string
		}{ctx.Obls, ctx.Undecided})
		fmt.Printf("JSON:%s\n", b)
		return
	}
	if *tier == "thorough" {
		// the remaining configurations, one process each (run concurrently)
		type childRes struct {
			c    core.Config
			obls []core.Obligation
			und  []string
			err  error
		}
		var cfgs []core.Config
		for _, c := range thoroughConfigs() {
			if c != cfg {
				cfgs = append(cfgs, c)
			}
		}
		results := make([]childRes, len(cfgs))
		done := make(chan int, len(cfgs))
		for i, c := range cfgs {
			go func(i int, c core.Config) {
				obls, und, err := runChild(*prop, c)
				results[i] = childRes{c, obls, und, err}
				done <- i
			}(i, c)
		}
		for range cfgs {
			<-done
		}
		for _, r := range results {
			if r.err != nil {
				ctx.Undecide("configuration %s: %v", r.c, r.err)
				continue
			}
			ctx.Obls = append(ctx.Obls, r.obls...)
			for _, u := range r.und {
				ctx.Undecide("configuration %s: %s", r.c, u)
			}
			ctx.Saw("configurations", r.c.String())
		}
	}
	ctx.Saw("configurations", cfg.String())
	known, err := core.LoadKnown()
	if err != nil {
		fmt.Printf("UNDECIDED property=%s known_findings.json unreadable: %v\n", *prop, err)
		os.Exit(2)
	}
	out := core.Evaluate(ctx, known)
	os.Exit(core.Emit(ctx, out, time.Since(t0).Seconds(), seed))
}

// runAll is a convenience for the seed/refactor tooling: one load, every
// property, quick tier. The registered MANIFEST commands never use it.
func runAll(seed int64) int {
	p, err := core.Load(core.DefaultConfig)
	if err != nil {
		fmt.Printf("UNDECIDED load: %v\n", err)
		return 2
	}
	known, err := core.LoadKnown()
	if err != nil {
		fmt.Printf("UNDECIDED known_findings.json unreadable: %v\n", err)
		return 2
	}
	worst := 0
	for _, id := range rules.IDs() {
		fn, level, _ := rules.Lookup(id)
		t0 := time.Now()
		ctx := core.NewCtx(p, id, "quick")
		ctx.Level = level
		func() {
			defer func() {
				if r := recover(); r != nil {
					ctx.Undecide("internal panic in checker: %v\n%s", r, firstLines(string(debug.Stack()), 14))
				}
			}()
			fn(ctx)
		}()
		ctx.Saw("configurations", core.DefaultConfig.String())
		rc := core.Emit(ctx, core.Evaluate(ctx, known), time.Since(t0).Seconds(), seed)
		fmt.Printf("RESULT %s rc=%d\n", id, rc)
		if rc > worst {
			worst = rc
		}
	}
	return worst
}

func thoroughConfigs() []core.Config {
	return []core.Config{
		{GOOS: "linux", GOARCH: "amd64", Tags: "verif"},
		{GOOS: "linux", GOARCH: "amd64", Tags: ""},
		{GOOS: "linux", GOARCH: "386", Tags: "verif"},
		{GOOS: "linux", GOARCH: "386", Tags: ""},
		{GOOS: "windows", GOARCH: "amd64", Tags: "verif"},
		{GOOS: "windows", GOARCH: "amd64", Tags: ""},
	}
}

func runOne(prop, tier, level string, fn rules.Checker, cfg core.Config) (ctx *core.Ctx, err error) {
	p, err := core.Load(cfg)
	if err != nil {
		return nil, err
	}
	ctx = core.NewCtx(p, prop, tier)
	ctx.Level = level
	defer func() {
		if r := recover(); r != nil {
			ctx.Undecide("internal panic in checker: %v\n%s", r, firstLines(string(debug.Stack()), 14))
		}
	}()
	fn(ctx)
	return ctx, nil
}

func firstLines(s string, n int) string {
	l := strings.Split(s, "\n")
	if len(l) > n {
		l = l[:n]
	}
	return strings.Join(l, "\n")
}

func runChild(prop string, c core.Config) ([]core.Obligation, []string, error) {
	self, err := os.Executable()
	if err != nil {
		return nil, nil, err
	}
	cmd := exec.Command(self, "-property", prop, "-tier", "thorough", "-config", c.String(), "-emit-json")
	cmd.Env = os.Environ()
	outb, err := cmd.CombinedOutput()
	for _, line := range strings.Split(string(outb), "\n") {
		if strings.HasPrefix(line, "JSON:") {
			var r struct {
				Obls      []core.Obligation
				Undecided []string
			}
			if e := json.Unmarshal([]byte(line[5:]), &r); e != nil {
				return nil, nil, e
			}
			return r.Obls, r.Undecided, nil
		}
	}
	if err == nil {
		err = fmt.Errorf("no result")
	}
	return nil, nil, fmt.Errorf("%v: %s", err, firstLines(string(outb), 6))
}

func writeUndecidedEvidence(prop, tier, level string, err error, wall float64, seed int64) {
	ev := map[string]interface{}{
		"property_id": prop, "tier": tier, "seed": seed, "level": "other",
		"coverage": map[string]interface{}{
			"explanation": "UNDECIDED: the tree could not be analysed: " + err.Error(),
			"obligations": 0, "discharged": 0, "samples": []string{"none"}, "exhaustive": false,
		},
		"wall_s": wall, "violations": 0,
	}
	b, _ := json.MarshalIndent(ev, "", " ")
	os.MkdirAll(core.VerifDir()+"/evidence", 0o755)
	os.WriteFile(core.VerifDir()+"/evidence/"+prop+".json", b, 0o644)
}

func doReplay(path string) int {
	b, err := os.ReadFile(path)
	if err != nil {
		fmt.Fprintln(os.Stderr, err)
		return 2
	}
	var r core.Replay
	if err := json.Unmarshal(b, &r); err != nil {
		fmt.Fprintln(os.Stderr, err)
		return 2
	}
	fn, level, ok := rules.Lookup(r.Property)
	if !ok {
		fmt.Printf("UNDECIDED property=%s not claimed\n", r.Property)
		return 2
	}
	cfg := core.DefaultConfig
	if parts := strings.Split(r.Obl.Config, "/"); len(parts) == 3 {
		cfg = core.Config{GOOS: parts[0], GOARCH: parts[1], Tags: parts[2]}
		if cfg.Tags == "-" {
			cfg.Tags = ""
		}
	}
	ctx, err := runOne(r.Property, "quick", level, fn, cfg)
	if err != nil {
		fmt.Printf("UNDECIDED property=%s %v\n", r.Property, err)
		return 2
	}
	found := false
	for _, o := range ctx.Obls {
		if o.Rule == r.Obl.Rule && o.Key == r.Obl.Key {
			found = true
			if !o.OK {
				fmt.Printf("%s  %s  %s  %s\n", o.Pos, o.Rule, o.Key, o.Msg)
				fmt.Printf("VIOLATION property=%s replay=%s\n", r.Property, path)
				return 1
			}
		}
	}
	if !found {
		fmt.Printf("obligation %s %s no longer exists in the tree\n", r.Obl.Rule, r.Obl.Key)
		return 2
	}
	fmt.Printf("obligation %s %s is discharged on the current tree\n", r.Obl.Rule, r.Obl.Key)
	return 0
}
