#!/bin/bash
# Renames unexported functions/methods of /repo one at a time (gofmt -r on the
# declaring package) and runs every check: a rename is behaviour-preserving, so
# every report is a false alarm of the machinery.
# usage: rename_test.sh name [name...]   (plain identifiers)
set -u
cd /verif
export GOFLAGS=-mod=mod GOPROXY=off GOSUMDB=off GOTOOLCHAIN=local
if ! git -C /repo diff --quiet; then echo "refusing: /repo has uncommitted changes"; exit 3; fi
for n in "$@"; do
  files=$(grep -rlw --include=*.go "$n" /repo | grep -v _test.go)
  [ -z "$files" ] && { echo "== $n: not found"; continue; }
  gofmt -r "$n -> ${n}Renamed" -w $files 2>/dev/null
  # test files that use it
  tfiles=$(grep -rlw --include=*_test.go "$n" /repo)
  [ -n "$tfiles" ] && gofmt -r "$n -> ${n}Renamed" -w $tfiles 2>/dev/null
  if ! (cd /repo && go build ./... >/dev/null 2>&1); then echo "== $n: rename does not build (skipped)"; git -C /repo checkout -- .; continue; fi
  ev=$(mktemp -d); cp known_findings.json $ev/
  MLTLINT_VERIF=$ev ./bin/mltlint -all > $ev/all.out 2>&1
  git -C /repo checkout -- .
  rep=$(grep "^RESULT" $ev/all.out | grep -v "rc=0" | sed 's/RESULT //' | tr '\n' ' ')
  echo "== rename $n: ${rep:-silent}"
  [ -n "$rep" ] && grep -v "^VIOLATION\|^KNOWN\|^info\|^RESULT\|quick: .* 0 violations, 0 undecided" $ev/all.out | head -4 | cut -c1-260
  rm -rf $ev
done
