#!/usr/bin/env python3
# D28 demonstration: writes an ELF64/RISC-V file whose only executable section
# sits at 0xfffffffffffffffc (4 bytes, so its end wraps to 0). Before /repo
# ac23292 `mltwist <file>` crashed with "slice bounds out of range [1:0]" in
# basicblock.splitByAddress; since then it exits 1 with "no basic block with
# address 0x1000 found". usage: d28_wrap_elf.py <out>
import struct, sys
shstr = b"\0.text\0.shstrtab\0"
code = struct.pack("<I", 0x00000013)  # nop
ehsize, phsize, shsize = 64, 56, 64
off_ph = ehsize
off_code = off_ph + phsize
off_shstr = off_code + len(code)
off_sh = (off_shstr + len(shstr) + 7) & ~7
eh = b"\x7fELF" + bytes([2, 1, 1, 0]) + b"\0" * 8
eh += struct.pack("<HHIQQQIHHHHHH", 2, 243, 1, 0x1000, off_ph, off_sh, 0, ehsize, phsize, 1, shsize, 3, 2)
ph = struct.pack("<IIQQQQQQ", 1, 5, off_code, 0x1000, 0x1000, len(code), len(code), 0x1000)
def sh(name, typ, flags, addr, off, size):
    return struct.pack("<IIQQQQIIQQ", name, typ, flags, addr, off, size, 0, 0, 4, 0)
shs = sh(0, 0, 0, 0, 0, 0) + sh(1, 1, 6, 0xfffffffffffffffc, off_code, len(code)) + sh(7, 3, 0, 0, off_shstr, len(shstr))
data = eh + ph + code + shstr
data += b"\0" * (off_sh - len(data)) + shs
open(sys.argv[1], "wb").write(data)
