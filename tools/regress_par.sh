#!/bin/bash
# Parallel form of regress.sh: the stored seeded changes and refactorings are
# applied to scratch worktrees of /repo HEAD under $TMPDIR (never to /repo), K at
# a time, and `mltlint -all` is pointed at the worktree with MLTLINT_REPO.
# usage: tools/regress_par.sh [K]   -> /tmp/regress_par.out, summary on stdout
set -u
cd /verif
K=${1:-6}
out=${TMPDIR:-/tmp}/regress_par.out; : > $out
list=$(mktemp)
for s in $(ls seeded | grep -v MATRIX); do [ -f seeded/$s/patch.diff ] && echo "seed $s /verif/seeded/$s/patch.diff"; done >> $list
for d in refactors/*/; do for r in $d*.diff; do [ -f "$r" ] && echo "refac $(basename $d)/$(basename $r) /verif/$r"; done; done >> $list
worker() {
  wt=$1; shift
  while read kind name patch; do
    git -C $wt checkout -q -- . ; git -C $wt clean -fdq
    if ! git -C $wt apply $patch 2>/dev/null && ! git -C $wt apply -C1 $patch 2>/dev/null; then echo "$kind $name DOES-NOT-APPLY" >> $out; continue; fi
    ev=$(mktemp -d); cp known_findings.json $ev/
    MLTLINT_REPO=$wt MLTLINT_VERIF=$ev ./bin/mltlint -all > $ev/all.out 2>&1
    rep=$(grep "^RESULT" $ev/all.out | grep -v "rc=0" | sed 's/RESULT \(C[0-9]*\) rc=\([0-9]\)/\1(rc=\2)/' | tr '\n' ' ')
    n=$(grep -c "^RESULT" $ev/all.out)
    echo "$kind $name n=$n ${rep:-silent}" >> $out
    if [ "$kind" = refac ] && [ -n "$rep" ]; then grep -v "^VIOLATION\|^KNOWN\|^info\|^RESULT\|quick: .* 0 violations, 0 undecided" $ev/all.out | head -4 | cut -c1-300 | sed "s|^|    $name: |" >> $out; fi
    rm -rf $ev
  done
}
pids=""
for k in $(seq 1 $K); do
  wt=$(mktemp -d "${TMPDIR:-/tmp}/rgwt.XXXXXX"); rmdir $wt
  git -C /repo worktree add -q --detach $wt HEAD || exit 3
  awk -v k=$k -v K=$K 'NR%K==k%K' $list > $list.$k
  ( worker $wt < $list.$k; git -C /repo worktree remove --force $wt; rm -rf $wt $list.$k ) &
  pids="$pids $!"
done
wait $pids
git -C /repo worktree prune
rm -f $list
echo "SEEDS: $(grep -c '^seed .*rc=' $out) reported of $(grep -c '^seed' $out); missed: $(grep '^seed' $out | grep -v 'rc=' | tr '\n' ';')"
echo "REFACTORS: $(grep -c '^refac .*silent' $out) silent of $(grep -c '^refac' $out); alarms:"
grep '^refac' $out | grep -v silent
