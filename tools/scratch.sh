#!/bin/bash
# Development helper: run mltlint on a scratch copy of /repo with an edit applied.
# usage: scratch.sh <property[,property...]> <sed-expr|@patchfile> <file>   (file relative to repo)
# The scratch copy lives under $TMPDIR (default /tmp) and is removed afterwards.
set -u
props=$1; edit=$2; file=${3:-}
d=$(mktemp -d "${TMPDIR:-/tmp}/mltscratch.XXXXXX")
trap 'rm -rf "$d"' EXIT
rsync -a --exclude .git /repo/ "$d/"
if [[ "$edit" == @* ]]; then
  (cd "$d" && patch -p1 -s < "${edit#@}") || { echo "patch failed"; exit 3; }
else
  sed -i -E "$edit" "$d/$file" || exit 3
  diff -u "/repo/$file" "$d/$file" | head -30
fi
export MLTLINT_VERIF=$(mktemp -d "${TMPDIR:-/tmp}/mltverif.XXXXXX")
cp /verif/known_findings.json "$MLTLINT_VERIF/" 2>/dev/null
if [[ "${BUILD:-1}" == 1 ]]; then
  (cd "$d" && GOFLAGS=-mod=mod GOPROXY=off GOSUMDB=off GOTOOLCHAIN=local go build ./... ) || echo "!! variant does not compile"
fi
rc=0
for p in ${props//,/ }; do
  MLTLINT_REPO="$d" /verif/bin/mltlint -property "$p" -tier "${TIER:-quick}" | sed "s|$d/||g"
  r=${PIPESTATUS[0]}; echo "[$p exit=$r]"; [[ $r != 0 ]] && rc=$r
done
rm -rf "$MLTLINT_VERIF"
exit $rc
