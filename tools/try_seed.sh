#!/bin/bash
# Confirms a seeded change and runs every claimed check against it.
# usage: try_seed.sh <seed-dir>    (contains patch.diff, demo/<test file(s)>, meta.json or notes.md)
#   1. fresh scratch worktree of /repo HEAD under $TMPDIR: apply patch, build, run the existing suite (must pass)
#   2. copy the demonstration in: must FAIL with the change, PASS without it
#   3. apply the patch to /repo itself, run all quick checks, undo (git checkout -- .)
# Nothing is committed anywhere; the scratch worktree is removed.
set -u
seed=$(realpath "$1")
export GOFLAGS=-mod=mod GOPROXY=off GOSUMDB=off GOTOOLCHAIN=local
wt=$(mktemp -d "${TMPDIR:-/tmp}/seedwt.XXXXXX"); rmdir "$wt"
git -C /repo worktree add -q --detach "$wt" HEAD || exit 3
cleanup(){ git -C /repo worktree remove --force "$wt" 2>/dev/null; rm -rf "$wt"; }
trap cleanup EXIT
cd "$wt"
git apply "$seed/patch.diff" || { echo "CONFIRM: patch does not apply"; exit 3; }
if go build ./... 2>&1 | tail -5 | grep -q .; then echo "CONFIRM: build FAILS"; go build ./... 2>&1 | tail -5; exit 3; fi
echo "CONFIRM: builds"
if go test -vet=off -count=1 ./... > "$wt/.suite.log" 2>&1; then echo "CONFIRM: existing suite passes with the change"; else echo "CONFIRM: existing suite FAILS with the change"; grep -v "^ok\|no test files" "$wt/.suite.log" | head -20; exit 3; fi
# demonstration: every *_test.go under demo/ is copied to the place named in its first line comment "// place: <path>" or given by meta
demo_ok=1
for f in $(find "$seed/demo" -name '*_test.go' 2>/dev/null); do
  place=$(grep -m1 -o 'place: [^ ]*' "$f" | cut -d' ' -f2)
  [ -z "$place" ] && place=$(cat "$seed/demo/PLACE" 2>/dev/null | head -1)
  [ -z "$place" ] && { echo "CONFIRM: no place for $f"; demo_ok=0; continue; }
  mkdir -p "$(dirname "$place")"; cp "$f" "$place"
  pkg=./$(dirname "$place")
  if go test -vet=off -count=1 "$pkg" > "$wt/.demo1.log" 2>&1; then echo "CONFIRM: demonstration PASSES with the change (bad)"; demo_ok=0; else echo "CONFIRM: demonstration fails with the change"; fi
  git apply -R "$seed/patch.diff"
  if go test -vet=off -count=1 "$pkg" > "$wt/.demo2.log" 2>&1; then echo "CONFIRM: demonstration passes without the change"; else echo "CONFIRM: demonstration FAILS without the change (bad)"; tail -15 "$wt/.demo2.log"; demo_ok=0; fi
  git apply "$seed/patch.diff"
  rm -f "$place"
done
[ $demo_ok = 1 ] || echo "CONFIRM: demonstration NOT confirmed"
# checks against /repo itself (SKIP_CHECKS=1: confirmation only, /repo is not touched)
[ "${SKIP_CHECKS:-0}" = 1 ] && exit 0
cd /verif
if ! git -C /repo diff --quiet; then echo "refusing: /repo has uncommitted changes"; exit 3; fi
git -C /repo apply "$seed/patch.diff" || exit 3
caught=""
ev=$(mktemp -d "${TMPDIR:-/tmp}/seedev.XXXXXX"); cp /verif/known_findings.json "$ev/"
MLTLINT_VERIF=$ev /verif/bin/mltlint -all > "$ev/all.out" 2>&1
caught=$(grep "^RESULT" "$ev/all.out" | grep -v "rc=0" | sed 's/RESULT //;s/ rc=/(rc=/;s/$/)/' | tr '\n' ' ')
grep -v "^VIOLATION\|^KNOWN\|^info\|^RESULT\|quick: .* 0 violations, 0 undecided" "$ev/all.out" | head -6 | cut -c1-260
git -C /repo checkout -- .
rm -rf "$ev"
echo "CHECKS-REPORTING:${caught:- none}"
