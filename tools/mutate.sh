#!/bin/bash
# usage: mutate.sh <file-in-repo> <sed-expr> : applies the sed expression to /repo/<file>, checks that it
# builds, runs every quick check (mltlint -all), reverts. For ad-hoc sensitivity tests of rules.
set -u
cd /verif
if ! git -C /repo diff --quiet; then echo "refusing: /repo has uncommitted changes"; exit 3; fi
sed -i "$2" /repo/$1
if git -C /repo diff --quiet; then echo "MUTANT: no change made"; exit 3; fi
export GOFLAGS=-mod=mod GOPROXY=off GOSUMDB=off GOTOOLCHAIN=local
if ! (cd /repo && go build ./... 2>&1 | head -3 | grep -q . && exit 1 || exit 0); then echo "MUTANT: does not build"; (cd /repo && go build ./... 2>&1 | head -3); git -C /repo checkout -- .; exit 3; fi
ev=$(mktemp -d); cp known_findings.json $ev/
MLTLINT_VERIF=$ev ./bin/mltlint -all > $ev/all.out 2>&1
git -C /repo checkout -- .
rep=$(grep "^RESULT" $ev/all.out | grep -v "rc=0" | sed 's/RESULT //' | tr '\n' ' ')
echo "MUTANT [$2]: ${rep:-MISSED}"
grep -v "^VIOLATION\|^KNOWN\|^info\|^RESULT\|quick: " $ev/all.out | head -${LINES_PER:-3} | cut -c1-260
rm -rf $ev
