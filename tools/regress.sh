#!/bin/bash
# Regression of the machinery itself: (1) clean tree: every check exit 0;
# (2) every seeded change is reported by at least one check; (3) every stored
# behaviour-preserving refactoring leaves every check silent.
# usage: tools/regress.sh [clean|seeds|refactors ...]
set -u
cd /verif
what=${*:-clean seeds refactors}
for w in $what; do case $w in
clean)
  ev=$(mktemp -d); cp known_findings.json $ev/
  MLTLINT_VERIF=$ev ./bin/mltlint -all > $ev/all.out 2>&1
  bad=$(grep "^RESULT" $ev/all.out | grep -v "rc=0" | tr '\n' ' ')
  echo "CLEAN: ${bad:-all $(grep -c '^RESULT' $ev/all.out) checks exit 0}"
  [ -n "$bad" ] && grep -v "^KNOWN\|^info\|^RESULT\|quick: .* 0 violations, 0 undecided" $ev/all.out | head -20 | cut -c1-300
  rm -rf $ev;;
seeds)
  tools/seed_matrix.sh > /tmp/regress.seeds 2>&1
  echo "SEEDS: $(grep -c 'rc=' /tmp/regress.seeds) reported, missed: $(grep -v 'rc=' /tmp/regress.seeds | tr '\n' ' ')";;
refactors)
  : > /tmp/regress.refac
  for d in refactors/*/; do tools/try_refactor.sh $d >> /tmp/regress.refac 2>&1; done
  echo "REFACTORS: $(grep -c '^== .*silent' /tmp/regress.refac) silent of $(grep -c '^==' /tmp/regress.refac); alarms:"
  grep "^==" /tmp/regress.refac | grep -v silent;;
esac; done
