#!/bin/bash
# Runs every claimed quick check (one process, `mltlint -all`) against
# behaviour-preserving refactorings.
# usage: try_refactor.sh <dir with r*.diff> [pattern]; every report is a false alarm
# (or an undecided check) of the machinery. Nothing is committed to /repo.
set -u
cd /verif
d=$(realpath "$1"); pat=${2:-r*.diff}
if ! git -C /repo diff --quiet; then echo "refusing: /repo has uncommitted changes"; exit 3; fi
for r in "$d"/$pat; do
  [ -f "$r" ] || continue
  if ! git -C /repo apply "$r" 2>/dev/null; then
    if ! git -C /repo apply -C1 "$r" 2>/dev/null; then echo "== $(basename $d)/$(basename $r): does not apply to /repo HEAD"; continue; fi
  fi
  ev=$(mktemp -d); cp known_findings.json $ev/
  MLTLINT_VERIF=$ev ./bin/mltlint -all > $ev/all.out 2>&1
  git -C /repo checkout -- . ; git -C /repo clean -fdq
  rep=$(grep "^RESULT" $ev/all.out | grep -v "rc=0" | sed 's/RESULT //' | tr '\n' ' ')
  echo "== $(basename $d)/$(basename $r): ${rep:-silent}"
  if [ -n "$rep" ]; then grep -v "^VIOLATION\|^KNOWN\|^info\|^RESULT\|quick: .* 0 violations, 0 undecided" $ev/all.out | head -${LINES_PER:-8} | cut -c1-${WIDTH:-330}; fi
  rm -rf $ev
done
