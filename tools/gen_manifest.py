#!/usr/bin/env python3
"""Generates /verif/MANIFEST.json from the table below and `mltlint -list`.

The table holds, per property, the claim text; a property is only listed under
"checks" when mltlint actually registers a checker for it, otherwise it goes to
"not_applicable" with the reason given here (or "not implemented")."""
import json, subprocess, sys, os

V = "/verif"
claimed = subprocess.run([V + "/bin/mltlint", "-list"], capture_output=True, text=True).stdout.split()

ENV = "GOFLAGS=-mod=mod GOPROXY=off GOSUMDB=off GOTOOLCHAIN=local GOWORK=off"

NA = {
}

# property -> (technique, level text, level note, design ref)
T = {
 "C01": ("abstract interpretation of riscv.init and every effects closure over go/ssa (known-bits + bit-dependence, decision-replay path exploration), template rules F0-F11, exact check of immediate/register-field decoding against the ISA formats, canonical-form comparison of every entry's effect terms with a reference semantics table (C01.sem), concrete walk with Go integer wrap-around of the PC-relative address helper on boundary immediates (C01.pcrel) and of the functions building address constants at both ends of the 32- and 64-bit address spaces (C01.wrap); dependence rule for the sign of the signed remainder (C01.remsign, 1 listed known finding); every path without x0 operands compared, paths that assume an immediate value against the definition specialised to it; immediates spelled bit by bit (exact copies of instruction bits, sign/zero extension) on both sides; operands of the signed helpers rendered at their own width",
         "structural necessary conditions of correct lifting decided for all 160 table entries on all abstract paths: closures do not panic, every decoded operand bit influences the effects, access widths match metadata, operand roles (rs1 address / rs2 value / rd target / CSR bits), x0 guarded, XLEN widths, sign extension of immediates and of W results, operand order of non-commutative operations, every RV64 W-form entry agrees with its RV32 twin up to operators whose low bits depend only on low bits (F11); immediate formats I/S/B/U/J and register fields are verified bit-exactly; the lifted effect terms of all 160 entries equal, in a canonical form, the instruction definitions of the ISA manual written in the same vocabulary (operator, operand roles, comparison polarity, targets, widths, sign extension, jalr bit 0, mulh*/AMO selection); the helper adding a signed 32-bit immediate to an address is exact for 0, +-1, +-2^11, MaxInt32 and MinInt32. The meaning of the exprtools helpers themselves (C11) and CSR numbering are NOT decided; a helper replaced by its expansion would be reported although behaviour is unchanged",
         "trusts go/ssa, the abstract interpreter's transfer functions and that pkg/expr constructors mean what they document", "§4 C01"),
 "C02": ("SSA constant evaluation of the opcode tables and of instructionSet for the 8 configurations + exact cube algebra (sharp) against a reference encoding table; dominance rules for length check / 4-byte read; provenance of the returned parser's matcher (a cache is accepted only with a key walked to be injective over all configurations)",
         "proof by exhaustive symbolic set algebra: for each of the 8 parser configurations the accept set of the implementation equals the reference accept set, patterns are pairwise disjoint and names agree, for all 2^32 words; short input rejected before matching and only 4 bytes read; the matcher a parser carries is the one built from its own configuration",
         "trusted base: /verif/spec/rv_encodings.json (written from the ISA manual), the cube algebra, the SSA evaluator, and that opcode.Matcher returns the pattern whose masked bytes equal the input (C19 assumed)", "§4 C02"),
 "C03": ("deep-site rules over Emulator.Step and the same-package helpers it reaches (call chains, parameter-to-argument translation, interprocedural data dependence): read-after-apply reachability per function, must-pass-through of evaluation, lookup/miss-edge rules, report pairing (the reporter is identified by its effect on Step.RegLoads/MemLoads, values compared through copies only); concrete interprocedural CFG walk for the fall-through polarity; unchecked-type-assertion rule for .(expr.Const)",
         "evaluation discipline of the emulator: all effects evaluated before any is applied, nothing reads state while applying, fall-through exactly when no applied effect wrote the IP, lookup failure returns an error first, every read/write reported with the same key/address/value, memory layering Overlay(Bytes, Sparse), every .(expr.Const) in the emulator is applied to a constant-folded value or checked. Numeric agreement with a reference machine and absence of panics are NOT decided",
         "trusts go/ssa; C14-C16, C18 cover the state containers", "§4 C03"),
 "C04": ("who-may-call + miss-edge dominance + must-pass-through (memoising store) rules; state reads in the provider-calling functions use the function's own request parameters (C04.req); set-algebra truth tables",
         "for every call site of the state provider: dominated by the miss of the same request, memory ranges taken from Missing() of the same request, answer stored before going on; Overlay.Missing = base ∩ overlay; history semantics of the containers is C14-C16",
         "trusts go/ssa", "§4 C04"),
 "C05": ("loop pairing (every iteration records the writer), scan-direction vs addDep argument order, finder coverage (direct calls or a static table of passes ranged over as a whole), bound finder identified by role, bound decision by concrete CFG walk; the control edge is added in every iteration (no condition of its own, no early exit)",
         "shape of the dependency scanners: last-writer tables updated on every path, edges ordered earlier->later, all five finders run over the whole block, control edges to a jumping last instruction, LowerBound/UpperBound arithmetic; semantic preservation for all blocks is NOT decided",
         "trusts go/ssa and that read/write sets of instructions are complete (C28 rules for FindAll/Exprs)", "§4 C05"),
 "C06": ("guard (control-dependence) rule on all 11 addDep call sites, incl. the remembered special / memory-order instruction being recorded under its predicate, tested non-nil and remembered in an earlier iteration (no edge from an instruction to itself); who-may-call",
         "necessary condition for 'no spurious edge': every edge insertion is dominated by a witness of conflict (table hit under a key of the instruction, special/memory-order flags, jump targets); minimality of the relation is not decided",
         "trusts go/ssa", "§4 C06"),
 "C07": ("decision tables by (interprocedural) concrete CFG walk over all weak orderings (validateArrayIndex 13, checkFromToIndex 16, checkMove 150, move 3), only-writers / who-may-call, symbolic loop-range coverage and slot pairing in moveFwd/moveBack",
         "admission logic exact over orderings; rotation gated by the nil check; bookkeeping fields written only by owners; every slot of [lo,hi] rewritten once with index and chained address; lookups use the address-ordered copy. Invariants over arbitrary histories follow only as far as these local conditions imply them",
         "trusts go/ssa; LowerBound/UpperBound treated as opaque symbols in checkMove", "§4 C07"),
 "C08": ("error propagation, concrete interprocedural CFG walk of deps.jumps over 19 combinations (store kind, folds to a constant, equals End()), guard/dependence rules with predicate-helper summaries, memmove-direction rule, pipeline dataflow chain, no-insertion-while-ranging rule for fixed-trip loops; the split at a constant jump target is under no further condition",
         "jump targets = folded Possibilities of IP writes, dropped only when constant == ins.End(); splitting stages chained and cutting under the right comparisons; errors propagate; no loop with a trip count fixed on entry walks a block list its body inserts into. Where exactly splits fall for all inputs is not decided",
         "trusts go/ssa", "§4 C08"),
 "C09": ("traversal rules over the sealed IR (origin dataflow, rebuild homomorphism, case bodies followed into extracted helpers), concrete interprocedural CFG walk of the Binary/Less cases over all combinations of constant operands, changed flags and comparison outcome, operator-to-evaluator agreement by concrete walk of binaryEvalFunc per operator (switch, if chain or static table), byte-slice ownership in exprtransform/expreval",
         "constFold folds every child, rebuilds nodes with their own operator/key/width, evaluates exactly when both operands are constants (no further condition), selects the right branch of a constant comparison and re-widths it, passes operands in order, ends with PurgeWidthGadgets, and never writes through the bytes of the constants it folds; value preservation itself needs C10/C11 and is not decided",
         "trusts go/ssa", "§4 C09"),
 "C10": ("concrete walks (E7+ with a byte-buffer model) of the expreval operators for which a finite argument exists: setWidth (copies only: distinguishable bytes), Ltu (comparisons only: every ordering), Nand (bitwise only: per-bit universe), Add (digit step of a radix-256 ripple-carry adder over its finite domain: boundary digits quick, all 2^17 cases thorough; walked as the middle digit of a three-byte sum so that the outgoing carry is visible), Lsh/Rsh (byte moves plus an in-place bit shift: shift amount as an atom, one- to three-byte operands incl. operands wider/narrower than the width, all 2^16 two-byte values x bit shifts 1..7 thorough), bigInt (bytes handed to big.Int.SetBytes); ownership rule: a Value operand is only handed, with the operation width, to a width-adjusting method or another such function (C10.operands)",
         "zero extension / truncation to the operation width (for every operation: no operand byte is read before the adjustment), unsigned comparison, NAND, addition modulo 2^(8w) (digit step verified exhaustively, relying on the loop treating every digit alike) and the shifts given the amount big.Int reports are decided. The products and quotients computed by math/big (Mul, Div), division by zero and the conversion of big.Int results are numerical and NOT decided; that lessEval selects the branch Ltu names is C09.allconst",
         "trusts go/ssa and the walker's byte-buffer model", "§4 C10"),
 "C11": ("term extraction from SSA (the expression a gadget builds, helpers inlined) and three symbolic arguments over that term: per-bit truth tables for Nand-only terms, polynomial normal form over Z/2^(8w) for Add/Mul/complement terms (quotient as an atom), case analysis (operand zero / non-zero; a<b, a=b, a>b) for selections comparing with 0, 1 or the operands; four gadgets decided relative to an inner gadget kept as a node (Les on Lts, SignedMul on SignExtend, IntNegative and Abs on the sign mask); bitMask walked concretely (typed integer arithmetic) for every width and every count up to 72 positions beyond the largest width",
         "14 of the gadgets are decided for every width and every operand value: BitNot, BitAnd, BitOr, BitXor, Ones (bitwise), Negate, Sub, NewWidthGadget, Mod incl. divisor zero (ring), Bool, Not, BoolCond, Eq, Leu (cases); Les relative to Lts, SignedMul relative to SignExtend, IntNegative and Abs on the sign mask, which is itself decided by a walk over all 255 widths. Lts by a case analysis over the two top bits and the unsigned order (8 cases), SignExtend per bit in three position classes. MaskBits = BitAnd(e, bitMask(cnt, w)) with bitMask walked for all 255 widths and every count 0..2112 (538,815 walks): a constant 2^min(cnt,8w)-1 (min(cnt,8w) <= 64), or Sub(Lsh(1,cnt),1) (all ones from the width upwards). NOT decided: SignedDiv, SignedMod, RshA (their meaning depends on sign bits and masks that vary with the width) and the meaning of the IR operators themselves (C10)",
         "trusts go/ssa; relies on C10 for Add/Mul/Div/Nand at width w being the ring operations, the bitwise complement-and, and all ones on division by zero", "§4 C11"),
 "C12": ("decision table of dropUselessWidthGadget by CFG walk over the 13 weak orderings of (context, gadget, argument) widths against gadget >= min(arg, w); setWidth walked per node type; purgeWidthGadgetsKeepWidth walked over gadget chains; WidthGadgetArg walked over the 16 shape combinations; context-width agreement of every prune call site",
         "the width-gadget decision function is decided exhaustively; pruning contexts are the consuming widths; addresses are never pruned in a narrowing context; setWidth re-makes only Const and narrowed RegLoad",
         "trusts go/ssa and the documented width semantics of pkg/expr", "§4 C12"),
 "C13": ("traversal rules on Possibilities (origins of returned alternatives, no sub-slicing, SetWidth to the node width), call-graph reachability",
         "every child is expanded, both branches of a conditional are returned at the conditional's width, no conditional constructor is reachable; value equality with some alternative follows by induction from these",
         "trusts go/ssa; SetWidth value preservation is C12", "§4 C13"),
 "C14": ("ghost-interval refinement of cutExpr values (linear forms + branch facts, path alternatives through phis), guard rules on Missing, concrete CFG walk of wholeInterval on 16 interval lists, walk of Sparse.Store under every consistent order of (addr, end, Low, High) comparing the intervals put into the tree with the specification (C14.keep), byte-slice ownership, no-8-bit-scaling rule for byte counts, per-path walk of cutExpr.expr over concrete (begin, end, stored width)",
         "every piece put into / taken out of the interval tree covers exactly the address interval it stands for, shifts are (piece.low-addr)*8, cutBegin/cutEnd/expr keep/shift what they document, gaps are emitted under their comparisons, byte offsets are widened before being turned into bit counts; full history semantics (tree library, overlapping sequences) is not decided",
         "trusts go/ssa and the interval tree library (Overlaps sorted, Add/Put/Remove)", "§4 C14"),
 "C15": ("byte-slice ownership analysis with parameter and struct-result summaries, set-algebra truth tables, compaction idiom, memmove-direction rule for in-place shifts, guard rules, whole-list normalisation after a write (deep call sites of dedupBlocks)",
         "no borrowed byte slice is written or retained in mutable blocks, Missing/Blocks are the documented set terms, overlapping blocks rejected, reads return copies under a covering block, the insertion slot is opened by an overlap-safe shift before it is filled",
         "trusts go/ssa; field-based alias abstraction", "§4 C15"),
 "C16": ("set-algebra truth tables (incl. the two range sets inside Load, found through call chains), only-methods-on-base rule (also through helper parameters), concrete walk of the read-failure scenarios, shift/OR/sort patterns; the intersection/difference helpers under the set algebra walked for every ordering of an interval against lists of up to 3 (pieces and consumed count) plus sweep structure of their drivers",
         "Missing/Blocks and the ranges read per layer are the documented set terms, the base is never stored to, pieces are read with their interval, sorted, shifted by (Begin-addr) and OR-ed at w, a failed base read fails the read; MapIntersect/MapComplement, which the set terms stand on, compute intersection/difference for the walked orderings",
         "trusts go/ssa", "§4 C16"),
 "C17": ("concrete interprocedural walk (E7+) of NewMap, MapUnion, MapComplement, MapIntersect and the per-interval helpers with a small model of interval lists (input lists, interval locals, one accumulator; an out-of-range index or slice bound is a crash), once per weak ordering of the endpoints; sort-comparator rule",
         "the operators touch endpoints only by comparing and copying them, so a walk per ordering covers every input with that ordering: decided for every pair of normalised sets of up to 2 intervals (3249 pairs per operator), helper lists of up to 3, NewMap inputs of up to 3 possibly overlapping/adjacent/tied intervals - result equals the set operation in normal form and no access leaves its list. Lists longer than that are covered only as far as the loops treat every element alike (not proved)",
         "trusts go/ssa, the walker's list model and sort.Slice", "§4 C17"),
 "C18": ("SSA pattern + dominance rules on RegMap.Store/Load; concrete walk of State.Apply per effect kind and address-is-constant outcome (a walk returning false passes no store)",
         "stored/loaded register values pass through SetWidth with the method's own width, miss returns absent, a refused memory effect is refused before any state change, effect fields are forwarded from the same node",
         "trusts go/ssa and that exprtransform.SetWidth implements zero-extension/truncation (C12)", "§4 C18"),
 "C19": ("interprocedural data/control dependence of every ambiguity decision on bytes and mask of both patterns, and no decision between groups by a lookup of one pattern among the others; bit-parallel argument for the pair predicate over Opcode values or the pattern records (bytes touched bitwise only + walk over all 1-/2-byte patterns on a 2-/1-bit universe); the records' cached masked bytes are bytes & mask of their own Opcode (store rule + walk of the masking helper); ordering-complete walks of byteLT/byteEQ; decision table of Validate; guard and search-predicate rules of matchInstruction; comparator/cut/adjacency rules of group and newMaskGroup",
         "structural necessary conditions of unambiguous, exact matching: a conflict between two patterns is decided from both byte strings and both masks by the exact predicate (agree on every bit both masks select, over the shorter length), every pattern of every pair of groups is compared, equal masks are grouped and equal masked bytes in a group rejected, a match is reported only under equality of the masked prefix and searched with a lower-bound predicate in a verified total order, every group is tried, malformed patterns are rejected. That these pieces compose to the property for every pattern set (sorting, binary search by the library) is NOT decided",
         "trusts go/ssa, sort.Slice/sort.Search", "§4 C19"),
 "C20": ("decision tables by CFG walk over the ELF type enum (5 values); MachineCode walked over a one-section file for the 16 section-attribute combinations and Memory over a one-segment file for 7 (loadable, file size, memory size) combinations; deep-site provenance / guard rules for the blocks built by Memory() and MachineCode(); concrete interprocedural walks of newMemory (10 block lists), Block.Address (7 addresses) and Memory.Address (28 addresses over three blocks, sort.Search followed) on a concrete block list; error propagation",
         "accepts exactly EXEC and DYN, keeps exactly non-empty address-bearing executable PROGBITS, segments become (Vaddr, file bytes + zero fill to Memsz), sections (Addr, Data), overlap (and only overlap) rejected, lookups return the bytes from the address to the end of the containing block or nothing; debug/elf itself is trusted",
         "trusts go/ssa and debug/elf", "§4 C20"),
 "C21": ("error propagation (an error carried round a loop does not count as returned); deep-site loop-variable and dataflow rules from parser.Parse to the platform decoder and newInstruction (through whatever helpers), freshness of every appended instruction (no data flow from an element of an instruction list), no comparator by subtraction where the package sorts, error propagation",
         "the walk starts at Begin(), advances by Len() of the parsed instruction until End(), same addr/bytes parsed and stored, Bytes = bytes[:ByteLen], Effects = ConstFold of the lifted effects only, decode/validate errors abort, no instruction of the result is derived from another one",
         "trusts go/ssa", "§4 C21"),
 "C22": ("command-table discipline (argument count/type agreement with the parsers), nil-function-field rule, user-input taint for constant indexing, line-index taint with raw-index parameter summaries, validator summaries and lower-bound (non-negative) reasoning, possibly-nil pointer fields, error-continues-loop rule; concrete walk of UI.parseCommand over (number of words, number of argument parsers, optional parser) with the word list's length tracked through reslices",
         "the crash paths that are visible in the shape of the code are decided for every command and every input-handling function; absence of every run-time panic (arithmetic, library) is NOT decided",
         "trusts go/ssa; sanitiser idioms enumerated in DESIGN §3 E10", "§4 C22"),
 "C23": ("post-dominance of re-rendering over successful moves, derived-state must-pass rule (fields computed from block order are recomputed on every path from the success edge of a block move), rendering loop patterns",
         "after a successful move the listing is re-derived, after a rejected one it is untouched; rendering details of lines are not decided",
         "trusts go/ssa", "§4 C23"),
 "C24": ("line-index taint in Print/Format methods (granted height) with upper and lower bounds, concrete interprocedural walk of the two Print methods with window arithmetic over every (lines<=7 incl. none, cursor, granted height) state counting the newlines of the text printed, loop-budget rule in distributeLines, error-before-print dominance, sibling agreement lines()/Print of the register view",
         "indices bounded by slice length and not negative, the listing and memory views never index outside their lines nor print more lines than granted in any walked state, the budget decreases with every line handed out, too few lines is an error before printing, the register view prints what it counts; exact line counts for all states are not decided",
         "trusts go/ssa", "§4 C24"),
 "C25": ("abstract interpretation of instruction.String() per table entry: dependence set of the text (exact-copy bit tracking and structural text signatures decide when path conditions matter) vs dependence set of the effects template",
         "every operand bit that influences the lifted behaviour influences the text, and the text starts with the mnemonic, for all 160 entries; 15 listed known findings (shift amounts, CSR zimm not rendered)",
         "trusts go/ssa and the abstract interpreter; fmt.Sprintf/strings.Join modelled as dependence-preserving", "§4 C25"),
 "C26": ("error-propagation analysis over cmd/mltwist, elf, parser, deps, basicblock; exit-code/stderr rule in main; header-sized allocation rule; inter-procedural length-precondition rule (callee relies on len(p) >= k => every caller establishes it); bound rule for computed indices into fixed-size arrays (type range, mask/remainder/shift by a constant, range key, guarding comparison)",
         "every error is returned or checked with a failing branch that cannot return nil; main prints to stderr and exits non-zero; 1 listed known finding (unbounded Memsz allocation); byte-slice lengths relied upon by the decoder are established by its callers and interface entry points rely on nothing unchecked; a fixed-size array is indexed below its length (no such access exists today: the rule is exercised by the stored change seeded/C26-5). Absence of panics in general is NOT decided",
         "trusts go/ssa", "§4 C26"),
 "C27": ("module-wide byte-slice ownership analysis; fresh-storage rule for newConst call sites; only-writers of Const.bs; encoding-loop pattern and accept/reject decision table of NewConstUint/NewConstInt by concrete CFG walk",
         "constants never share storage with caller-owned slices and nothing writes through constant storage; the integer constructors store byte(val>>8i) little-endian in a fresh w-byte slice and reject exactly the values whose shifted-out rest is not zero (unsigned) / not the sign extension of the top stored byte (signed). The reading accessors (ConstUint/ConstInt) are NOT decided",
         "trusts go/ssa; field-based alias abstraction", "§4 C27"),
 "C28": ("traversal rules over the sealed IR: exhaustiveness of all 11 type switches, constructor/field/accessor order, Equal compare tables (boolean path enumeration), FindAll pre-order and threading, ReplaceAll/EffectApply rebuild homomorphism (the replacement function sees the rebuilt node), Exprs child sets",
         "the structural utilities visit/compare/rebuild exactly the children and attributes of every node type in the right order; follows the property closely because these functions are structural themselves",
         "trusts go/ssa", "§4 C28"),
 "C29": ("alphabet rule (characters of the text only compared with the space character) + concrete walk with literal strings of consoleui.format over every space pattern of texts of 1..7 characters x 6 (indentation, width) pairs, the text written to the strings.Builder compared with the property",
         "since format cannot tell non-space characters apart, the space pattern, the length and the room determine its behaviour: for all 127 patterns up to 7 characters and rooms of 1..4 characters (762 walks) it terminates, every line starts with the indentation and fits the room, every non-space character appears once and in order, a word is split only when it alone is longer than the room. Longer texts are covered only as far as the loop treats every position alike (not proved)",
         "trusts go/ssa, the walker's string model and strings.Builder", "§4 C29"),
 "C30": ("concrete CFG walk with literal strings: parseAddr on 19 sample arguments, readValue on 11 typed lines (slicing/indexing/len/comparison/ranging evaluated on the literals, out-of-range access recorded as a crash); dataflow rules for sign and byte order",
         "no sample argument crashes; every notation reaches ParseUint with the right base and exactly the digits behind its prefix (a lone 0 is decimal); empty lines and underscores are answered with an error before SetString, every other line reaches SetString(line, 0) unchanged; negative via Sub(0,|n|) folded. The numeric value of strconv/big parsing is trusted",
         "trusts go/ssa, strconv and math/big", "§4 C30"),
 "C31": ("concrete interprocedural walk of Cursor.Set over the 13 orderings of (v, 0, max) (stores v and returns nil exactly for 0 <= v < max), line-index taint of the navigation commands, concrete CFG walk of the find search for 1-5 lines x every cursor x every first match, statelessness of command actions (no write to a captured variable of the table builder), error propagation",
         "a failed command leaves the cursor unchanged, accepted offsets are exactly 0 <= v < max, navigation reaches the listing only with validated indices, find probes exactly the lines after the cursor in cyclic order, never the cursor line, and lands on the first match",
         "trusts go/ssa", "§4 C31"),
 "C32": ("compaction idiom on memoryLines, line-index taint in the memory view, concrete CFG walk of block2Lines for every block within [0,50), concrete walk of the address command over a three-row view",
         "merged rows are dropped, rows are indexed below their number, rows are exactly one per overlapping 16-byte window holding window∩block, the address command searches the ranges; byte rendering is not decided",
         "trusts go/ssa", "§4 C32"),
}

checks = []
na = []
props = [json.loads(l) for l in open(V + "/properties.jsonl")]
for p in props:
    pid = p["id"]
    if pid in claimed:
        tech, text, note, ref = T.get(pid, ("static analysis over go/ssa", "structural necessary conditions, see DESIGN.md", "trusts go/ssa", "§4 " + pid))
        cat = "proof" if pid == "C02" else "other"
        checks.append({
            "property_id": pid,
            "quick_cmd": f"./bin/mltlint -property {pid} -tier quick",
            "thorough_cmd": f"./bin/mltlint -property {pid} -tier thorough",
            "evidence_file": f"/verif/evidence/{pid}.json",
            "replay_cmd_template": "./bin/mltlint -replay {path}",
            "engine": "mltlint",
            "level_claimed": {"category": cat, "text": text, "design_ref": "DESIGN.md " + ref},
            "level_note": note,
            "technique": "static analysis: " + tech,
        })
    else:
        na.append({"property_id": pid, "reason": NA.get(pid, "check not implemented in this revision of mltlint (see DESIGN.md §9); not claimed rather than approximated")})

m = {
 "version": 1,
 "setup_cmd": f"cd /verif/mltlint && {ENV} go build -o /verif/bin/mltlint ./cmd/mltlint",
 "hooks": {
   "guard": "verif",
   "enable": "no hooks: nothing of /repo is executed; the build tag `verif` is passed to the loader (go/packages -tags=verif) so that any verif-tagged file would be analysed too",
   "baseline_off_cmd": "cd /repo && go test -vet=off -count=1 ./...",
   "source_commits": [],
   "add_only": True,
 },
 "engines": [{"name": "mltlint", "path": "/verif/mltlint", "serves_properties": claimed,
              "kind_free_text": "custom static analyser over go/packages + go/types + go/ssa (x/tools v0.29.0): abstract interpreter, cube algebra, dominance/post-dominance/pairing rules, traversal rules over the sealed IR, ownership, path enumeration"}],
 "checks": checks,
 "not_applicable": na,
 "notes": "All checks are static analyses of /repo's current working tree; exit 0 held, 1 VIOLATION, 2 undecided (tree does not type-check, anchor unresolved, vacuity guard). Known findings: /verif/known_findings.json.",
}
json.dump(m, open(V + "/MANIFEST.json", "w"), indent=1)
print("claimed:", claimed, "n/a:", [x["property_id"] for x in na])
