#!/usr/bin/env python3
"""Generates /verif/MANIFEST.json from the table below and `mltlint -list`.

The table holds, per property, the claim text; a property is only listed under
"checks" when mltlint actually registers a checker for it, otherwise it goes to
"not_applicable" with the reason given here (or "not implemented")."""
import json, subprocess, sys, os

V = "/verif"
claimed = subprocess.run([V + "/bin/mltlint", "-list"], capture_output=True, text=True).stdout.split()

ENV = "GOFLAGS=-mod=mod GOPROXY=off GOSUMDB=off GOTOOLCHAIN=local GOWORK=off"

NA = {
 "C10": "exact arithmetic of Add/Lsh/Rsh/Mul/Div/Nand/Ltu for all operand values and widths is a numerical result over unbounded byte loops and big.Int round trips; no structural clause short of evaluating the arithmetic (the one structural part, one evaluator per operator, is decided under C09)",
 "C11": "each gadget's meaning is the value of a NAND/shift/compare network for all widths and operands; deciding it needs evaluation or a solver, which is another technique family",
 "C17": "the interval-set operations touch their inputs only through comparisons but inside loops over slices of unbounded length; deciding them would be bounded execution, not static analysis (the compaction-idiom clause is decided under C15/C32)",
 "C19": "whether conflict detection finds every pair of overlapping patterns is a property of mask algebra over all pattern sets; no structural necessary condition short of re-deriving that algebra (for the concrete RISC-V tables disjointness is decided under C02)",
 "C29": "termination and line widths of the greedy wrapper depend on string lengths and a running index; no sound structural necessary condition in reach",
}

# property -> (technique, level text, level note, design ref)
T = {
 "C01": ("abstract interpretation of the opcode tables and effects closures over go/ssa (known-bits + bit-dependence), template rules F1,F5-F10",
         "structural necessary conditions of correct lifting decided for all 160 table entries: every decoded operand bit is used, access widths match metadata, operand roles/x0 handling/XLEN widths/sign extension of immediates/operand order; ALU semantics themselves are NOT decided",
         "trusts go/ssa, the abstract interpreter's transfer functions and that pkg/expr constructors mean what they document", "§4 C01"),
 "C02": ("SSA constant evaluation of the opcode tables + exact cube algebra (sharp) against a reference encoding table; dominance rules for length check",
         "proof by exhaustive symbolic set algebra: for each of the 8 parser configurations the accept set of the implementation equals the reference accept set, patterns are pairwise disjoint and names agree, for all 2^32 words; short input rejected before matching and only 4 bytes read",
         "trusted base: /verif/spec/rv_encodings.json (written from the ISA manual), the cube algebra, the SSA evaluator, and that opcode.Matcher returns the pattern whose masked bytes equal the input (C19 assumed)", "§4 C02"),
 "C18": ("SSA pattern + dominance rules on RegMap.Store/Load and State.Apply",
         "structural necessary conditions: stored/loaded register values pass through SetWidth with the method's own width, miss returns absent, a refused memory effect is refused before any state change, effect fields are forwarded from the same node; not the history semantics",
         "trusts go/ssa and that exprtransform.SetWidth implements zero-extension/truncation (C12)", "§4 C18"),
}

checks = []
na = []
props = [json.loads(l) for l in open(V + "/properties.jsonl")]
for p in props:
    pid = p["id"]
    if pid in claimed:
        tech, text, note, ref = T.get(pid, ("static analysis over go/ssa", "structural necessary conditions, see DESIGN.md", "trusts go/ssa", "§4 " + pid))
        cat = "proof" if pid == "C02" else "other"
        checks.append({
            "property_id": pid,
            "quick_cmd": f"./bin/mltlint -property {pid} -tier quick",
            "thorough_cmd": f"./bin/mltlint -property {pid} -tier thorough",
            "evidence_file": f"/verif/evidence/{pid}.json",
            "replay_cmd_template": "./bin/mltlint -replay {path}",
            "engine": "mltlint",
            "level_claimed": {"category": cat, "text": text, "design_ref": "DESIGN.md " + ref},
            "level_note": note,
            "technique": "static analysis: " + tech,
        })
    else:
        na.append({"property_id": pid, "reason": NA.get(pid, "check not implemented in this revision of mltlint (see DESIGN.md §9); not claimed rather than approximated")})

m = {
 "version": 1,
 "setup_cmd": f"cd /verif/mltlint && {ENV} go build -o /verif/bin/mltlint ./cmd/mltlint",
 "hooks": {
   "guard": "verif",
   "enable": "no hooks: nothing of /repo is executed; the build tag `verif` is passed to the loader (go/packages -tags=verif) so that any verif-tagged file would be analysed too",
   "baseline_off_cmd": "cd /repo && go test -vet=off -count=1 ./...",
   "source_commits": [],
   "add_only": True,
 },
 "engines": [{"name": "mltlint", "path": "/verif/mltlint", "serves_properties": claimed,
              "kind_free_text": "custom static analyser over go/packages + go/types + go/ssa (x/tools v0.29.0): abstract interpreter, cube algebra, dominance/post-dominance/pairing rules, traversal rules over the sealed IR, ownership, path enumeration"}],
 "checks": checks,
 "not_applicable": na,
 "notes": "All checks are static analyses of /repo's current working tree; exit 0 held, 1 VIOLATION, 2 undecided (tree does not type-check, anchor unresolved, vacuity guard). Known findings: /verif/known_findings.json.",
}
json.dump(m, open(V + "/MANIFEST.json", "w"), indent=1)
print("claimed:", claimed, "n/a:", [x["property_id"] for x in na])
